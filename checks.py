"""Entry point of every registered check: ./check <ID> --tier quick|thorough [--replay path]"""
import os
import sys
import time
import argparse
import importlib

from symx import run as R

REG = {}


def register(pid):
    def deco(fn):
        REG[pid] = fn
        return fn
    return deco


# ---------------------------------------------------------------------------------------------- lexer step
LEX_FUNCS = ["norminette.lexer.lexer.Lexer.get_next_token", "Lexer.peek", "Lexer.raw_peek", "Lexer.pop",
             "Lexer.parse_float_literal", "Lexer.parse_integer_literal", "Lexer.parse_char_literal",
             "Lexer.parse_string_literal", "Lexer.parse_identifier", "Lexer.parse_whitespace",
             "Lexer.parse_line_comment", "Lexer.parse_multi_line_comment", "Lexer.parse_operator",
             "Lexer.parse_brackets", "INT_LITERAL_PATTERN / FLOAT_*_PATTERN (real pattern strings, symx regex matcher)",
             "norminette.errors.Error.from_name", "Error.add_highlight"]


def lexer_step(prop, tier, seed, t0, what):
    from harness import lexer_step as H
    N = 6 if tier == "quick" else 7
    budget = 200 if tier == "quick" else 2400
    chunks = H.chunks(tier, N)
    res = R.run_pool(H.HNAME, chunks, budget, seed, tier, extra=dict(props=[prop], sample_rate=0.05 if tier == "quick" else 0.02))
    agg = R.merge(res)
    bounds = dict(window_chars=N, alphabet="ASCII 0..127 (every character symbolic)",
                  family_windows=dict(identifier="2..20 identifier characters (every character symbolic over [A-Za-z0-9_]) + one delimiter out of "
                                                 + repr(H.FAM_DELIMS) + ": every keyword / reserved spelling of the dictionaries up to that length",
                                      block_comment="'/*' + 3..4 (quick) / 3..6 (thorough) body characters over " + repr(H.COMMENT_BODY) + " + '*/'"),
                  start_line=">= 1 (unbounded)",
                  start_column=">= 1 (unbounded)", per_path_alarm_s=5,
                  outside="tokens (incl. look-ahead) longer than the window; non-ASCII input",
                  induction="L1+L2 of DESIGN.md section 3: one get_next_token() step from an arbitrary start position")
    return R.report(prop, H.HNAME, tier, seed, agg, t0, bounds, functions=LEX_FUNCS,
                    assumptions=["lexer locality L1 (Lexer reads source only at/after its position)",
                                 "oracle: oracle/lex.py (own trigraph/digraph/keyword/punctuator tables)", what])


@register("C09")
def c09(tier, seed, t0):
    return lexer_step("C09", tier, seed, t0, "asserted: token position, end position, diagnostic anchor == independent position scanner")


@register("C10")
def c10(tier, seed, t0):
    return lexer_step("C10", tier, seed, t0, "asserted: token text == normalised consumed span; progress; BAD_LEXEME count")


def edits(prop, tier, seed, budget):
    from harness import edits as H
    res = R.run_pool(H.HNAME, H.chunks(tier, [prop], seed), budget, seed, tier,
                     extra=dict(props=[prop], sample_rate=0.05 if tier == "quick" else 0.02, chunk_time=40 if tier == "quick" else 400,
                                alarm=8.0 if tier == "quick" else 20.0), shuffle=False)
    return R.merge(res), H


EDIT_BOUNDS = dict(base_programs="quick: fn.c, ty.h, zoo.c; thorough: fn.c, gl.c, ty.h, zoo.c, pp.c (harness/edits.py BASE_SRC), each behind a valid 42 "
                                 "header; zoo.c holds one statement of nearly every primary rule kind, conforming or not (typedef / enum blocks, casts, "
                                 "ternaries, for, do-while, switch, goto + label, calls)",
                   edit_sites="every (quick: every second; zoo.c every fourth) token boundary after the header",
                   open_state_cuts="the first k lines for k = 0..16 with / without the final newline (inside / right after the 42 header, inside the "
                                   "first statements), a cut in the middle of header lines 3 and 11 (unterminated comment), the empty file",
                   inserted_lexeme="one lexeme of solver-chosen spelling, length 1..4 (quick) / 1..6 (thorough): any keyword, operator, bracket, "
                                   "digraph/trigraph, identifier, numeric constant, string, char, // or /* */ comment, blank, tab, newline",
                   structural_edits="cut (with / without trailing newline), delete 1-2 tokens, swap adjacent tokens, duplicate a token",
                   outside="two or more simultaneous insertions; files longer than ~35 lines; non-ASCII")


@register("C05")
def c05(tier, seed, t0):
    from harness import lexer_step as HL
    N = 5 if tier == "quick" else 7
    res = R.run_pool(HL.HNAME, HL.chunks(tier, N), 100 if tier == "quick" else 1500, seed, tier,
                     extra=dict(props=["C05"], sample_rate=0.05 if tier == "quick" else 0.02))
    agg1 = R.merge(res)
    agg2, HE = edits("C05", tier, seed, 150 if tier == "quick" else 3000)
    from harness import depth as HD
    res3 = R.run_pool(HD.HNAME, HD.chunks(tier), 120 if tier == "quick" else 600, seed, tier, extra=dict(chunk_time=100), shuffle=False)
    agg3 = R.merge(res3)
    agg = merge2(merge2(agg1, agg2), agg3)
    bounds = dict(tokenizer=dict(window_chars=N, alphabet="ASCII 0..127", start="symbolic line/column >= 1",
                                 family_windows="identifiers of 2..20 characters + delimiter; block comments with 3..4/6 body characters",
                                 claim="one get_next_token() step returns and raises nothing; induction L2"),
                  pipeline=EDIT_BOUNDS, per_path_alarm_s="5 (lexer) / 8 (pipeline)",
                  unbounded_repetition=dict(constructs=sorted(HD.TEMPLATES), sizes_instrumented=list(HD.DS), sizes_native=list(HD.BIG),
                                            smaller_native_sizes=HD.BIG_OF,
                                            claim="call depth of the /repo frames measured at the instrumented sizes; a construct whose depth "
                                                  "grows with every repetition is a candidate, decided by the native run at the large sizes "
                                                  "(RecursionError / other exception = violation); every construct is run at the large sizes",
                                            symbolic="the repeated unmatched character (class %r)" % HD.UNMATCHED))
    return report_multi("C05", {HL.HNAME: agg1, HE.HNAME: agg2, HD.HNAME: agg3}, agg, tier, seed, t0, bounds, LEX_FUNCS + PIPE_FUNCS,
                        ["lexer locality L1", "a path that hits the per-path alarm is replayed natively; only a reproducing hang is reported",
                         "CParsingError is the controlled fatal error (allowed outcome)"])


def merge2(a, b):
    out = dict(a)
    for k in ("paths", "queries", "sat", "unsat", "unknown", "forks", "vacuous", "gaps", "validated", "n_mismatch", "frontier_left",
              "chunks", "chunks_skipped", "chunks_cut"):
        out[k] = a[k] + b[k]
    out["solver_time_s"] = a["solver_time_s"] + b["solver_time_s"]
    out["errors"] = a["errors"] + b["errors"]
    out["confirmed"] = dict(a["confirmed"])
    out["confirmed"].update(b["confirmed"])
    out["unconfirmed"] = a["unconfirmed"] + b["unconfirmed"]
    out["mismatches"] = a["mismatches"] + b["mismatches"]
    out["samples"] = a["samples"][:3] + b["samples"][:3]
    out["gap_texts"] = dict(a["gap_texts"]); out["gap_texts"].update(b["gap_texts"])
    out["counters"] = dict(a["counters"]); out["counters"].update(b["counters"])
    out["notes"] = dict(a["notes"]); out["notes"].update(b["notes"])
    out["functions"] = set(a.get("functions", ())) | set(b.get("functions", ()))
    return out


def report_multi(prop, per_harness, agg, tier, seed, t0, bounds, functions, assumptions):
    """several harnesses feed one property: replay files must name the harness that produced the case"""
    owner = {}
    for h, a in per_harness.items():
        for fp in a["confirmed"]:
            owner[fp] = h
    orig = R.write_replay

    def wr(prop_, hname, finding):
        return orig(prop_, owner.get(finding["fingerprint"], hname), finding)
    R.write_replay = wr
    try:
        return R.report(prop, list(per_harness)[0], tier, seed, agg, t0, bounds, functions=functions, assumptions=assumptions)
    finally:
        R.write_replay = orig


@register("C11")
def c11(tier, seed, t0):
    from harness import literals as H
    N = int(os.environ.get("VERIF_N", 0)) or (8 if tier == "quick" else 10)
    budget = 200 if tier == "quick" else 2400
    res = R.run_pool(H.HNAME, H.chunks(tier, N), budget, seed, tier, extra=dict(sample_rate=0.05 if tier == "quick" else 0.02))
    agg = R.merge(res)
    bounds = dict(literal_chars=N, numeric_alphabet=H.NUM_ALPHA, quoted_alphabet=H.QUO_ALPHA,
                  delimiters=dict(numeric=H.NUM_DELIMS, quoted=H.QUO_DELIMS), start_position="(1,1) (positions are C09's subject)",
                  outside="literals longer than the bound; hex escapes with more than 2 digits; octal escapes with more than 3; "
                          "multi-character constants; trigraph/digraph/splice/tab inside literals (C10/C12); non-ASCII")
    return R.report("C11", H.HNAME, tier, seed, agg, t0, bounds,
                    functions=["Lexer.parse_integer_literal", "Lexer.parse_float_literal", "Lexer.parse_char_literal",
                               "Lexer.parse_string_literal", "Lexer.parse_multi_line_comment", "Lexer.pop", "Lexer.peek",
                               "INT_LITERAL_PATTERN", "FLOAT_EXPONENT_LITERAL_PATTERN", "FLOAT_FRACTIONAL_LITERAL_PATTERN",
                               "FLOAT_HEXADECIMAL_LITERAL_PATTERN", "integer_suffixes", "float_suffixes"],
                    assumptions=["reference recogniser oracle/c_literals.py (C11 6.4.4/6.4.5 + documented extensions)",
                                 "families V-int V-float V-char V-str and M1..M15 as in DESIGN.md 4.11; strings outside every family are skipped (counted)"])


PIPE_FUNCS = ["norminette.lexer.lexer.Lexer.* (whole tokenizer)", "norminette.context.Context.*", "norminette.registry.Registry.run",
              "Registry.run_rules", "every norminette.rules.is_*.Is*.run and check_*.Check*.run reached by the inputs",
              "norminette.errors.Errors.add / Error.from_name", "norminette.scope.*"]


@register("C01")
def c01(tier, seed, t0):
    from harness import conform as H
    n = int(os.environ.get("VERIF_N", 0)) or (48 if tier == "quick" else 640)
    budget = 170 if tier == "quick" else 2700
    res = R.run_pool(H.HNAME, H.chunks(tier, n), budget, seed, tier,
                     extra=dict(sample_rate=0.1 if tier == "quick" else 0.03, max_ops=2 if tier == "quick" else 3,
                                chunk_time=150 if tier == "quick" else 400, max_paths=160 if tier == "quick" else 600), shuffle=False)
    agg = R.merge(res)
    bounds = dict(program_instances=n, generator="harness/families.py (grammar of DESIGN.md 4.1), shapes from a seeded RNG",
                  symbolic_per_instance="all identifier / macro / include-path / numeric / char slots, <=2 string slots, "
                                        "<=2 (quick) or 3 (thorough) operator slots (rotating window), <=2 identifiers with the full "
                                        "first-letter class (others avoid l/u/L/U)",
                  identifier_length="1..6 quick, 1..10 thorough", expr_depth="2 quick / 3 thorough",
                  functions="<=2 quick / <=5 thorough", per_path_alarm_s=10,
                  outside="function pointers, __attribute__, compound initialisers, #if blocks in .c files, comments "
                          "(C17/C19), continuation lines, non-ASCII; shapes not drawn by the generator")
    return R.report("C01", H.HNAME, tier, seed, agg, t0, bounds, functions=PIPE_FUNCS,
                    assumptions=["the conforming grammar is this project's reading of the Norm (pdf/en.norm.tex), calibrated on the tool",
                                 "CLI clause (verdict line / exit status) is C04's subject; here: File.errors after Registry.run"])


def relations(prop, tier, seed, t0, what, bounds_extra):
    from harness import relations as H
    n = int(os.environ.get("VERIF_N", 0)) or ({"C18": 60, "C17": 400, "C19": 30}[prop] if tier == "quick" else {"C18": 400, "C17": 2000, "C19": 240}[prop])
    budget = 150 if tier == "quick" else 2400
    res = R.run_pool(H.HNAME, H.chunks(prop, tier, n), budget, seed, tier,
                     extra=dict(sample_rate=0.1 if tier == "quick" else 0.03, chunk_time=120 if tier == "quick" else 300,
                                max_slots=(5 if prop == "C17" else 3) if tier == "quick" else (6 if prop == "C17" else 4), max_paths={"C18": 120, "C17": 150, "C19": 160}[prop] * (1 if tier == "quick" else 4)))
    agg = R.merge(res)
    bounds = dict(program_instances=n, generator="harness/families.py", **bounds_extra)
    return R.report(prop, H.HNAME, tier, seed, agg, t0, bounds, functions=PIPE_FUNCS, assumptions=[what])


@register("C18")
def c18(tier, seed, t0):
    return relations("C18", tier, seed, t0,
                     "lemma L4: the explored paths partition the class of consistent renamings; identical outcome on every path = identical for every pair",
                     dict(symbolic="every user identifier (locals, params, functions, macros, include paths, g_/t_/s_/u_/e_ suffixes), consistent by construction",
                          classes="length and naming class kept; != C keywords (own list), NULL, environ, defined, __attribute__, main",
                          first_letter="all but 2 identifiers per instance avoid l/u/L/U (rotating)",
                          outside="violating variants (added with C02), identifiers longer than 6 (quick) / 10 (thorough)"))


@register("C17")
def c17(tier, seed, t0):
    return relations("C17", tier, seed, t0,
                     "lemma L4 over comment / string / char contents drawn from the code-like alphabet (no backslash, newline, closing delimiter)",
                     dict(symbolic="contents of <=5 (quick) / 6 (thorough) comment, string and character-constant slots per file; no trigraph / digraph "
                                   "can form in them (another source width) except in the dedicated template a11.c",
                          alphabet="A-Za-z0-9 space _+-*/%<>=!&|^~?:;,.(){}[]#@$ and the other kind of quote",
                          comment_positions="own line at file level (block, //, multi-line), end of line after globals/prototypes/includes/defines, one variant inside a function",
                          outside="42 header comment, #include strings, tabs in replacement text, content longer than 5"))


@register("C19")
def c19(tier, seed, t0):
    return relations("C19", tier, seed, t0,
                     "two runs per path class on the same symbolic slots: base file and file with the insertion; expected = shifted diagnostics",
                     dict(modes="header (11 lines in front of the headerless file), comment line at a top-level boundary, appended conforming function",
                          symbolic="identifier and numeric slots of both files (shared), comment content",
                          outside="files ending without newline; insertion inside definitions"))


@register("C04")
def c04(tier, seed, t0):
    from harness import cli as H
    nmax = 4 if tier == "quick" else 5
    res = R.run_pool(H.HNAME, H.chunks(tier, nmax), 150 if tier == "quick" else 1500, seed, tier,
                     extra=dict(sample_rate=0.05 if tier == "quick" else 0.02))
    agg = R.merge(res)
    bounds = dict(files="0..%d per run, every order and repetition of the classes clean / notice-only / erroneous / fatal" % nmax,
                  diagnostics_per_file="0..2, level symbolic (Error | Notice)", formats=["humanized", "json"],
                  selection=["explicit paths", "directory argument (cwd for n = 0)", "same file twice"],
                  outside="more than %d files; --cfile/--hfile (C16); file discovery itself (C15)" % nmax)
    return R.report("C04", H.HNAME, tier, seed, agg, t0, bounds,
                    functions=["norminette.__main__.main (argparse, file loop, except CParsingError, formatter call, sys.exit)",
                               "norminette.errors.Errors.status", "Errors.__iter__", "HumanizedErrorsFormatter.__str__",
                               "JSONErrorsFormatter.__str__", "norminette.file.File.__init__"],
                    assumptions=["stub: Lexer yields no token; Registry.run either raises CParsingError or adds 0..2 diagnostics "
                                 "whose level is a solver variable (the contract of the real analysis)",
                                 "counterexamples are replayed through the real command line on real files of the same classes"])


@register("C15")
def c15(tier, seed, t0):
    from harness import discover as H
    res = R.run_pool(H.HNAME, H.chunks(tier), 150 if tier == "quick" else 1800, seed, tier,
                     extra=dict(sample_rate=0.02 if tier == "quick" else 0.01, chunk_time=60 if tier == "quick" else 400))
    agg = R.merge(res)
    bounds = dict(tree="1..3 (quick) / 1..4 (thorough) entries below the current directory, every parent vector; kind of each entry "
                       "solver-chosen: regular file | directory | other (fifo)",
                  names="every character symbolic over '%s' ('.', the accepted suffix letters, an upper-case look-alike, 'a' = any other "
                        "character), lengths per entry from %s" % (H.ALPHA, {k: v for k, v in H.LENGTHS.items()}),
                  arguments=["none (current directory)", "one entry", "two entries (also the same one twice, a directory and a file inside it)",
                             "an entry and a nonexistent path, in both orders", "one entry with --use-gitignore (ignored flag per file symbolic)"],
                  asserted=["multiset of analysed files == regular files named with a .c/.h ending + regular non-hidden .c/.h files below named "
                            "directories (through non-hidden directories), each once per mention", "File.basename and the verdict line carry the entry's own name",
                            "a named regular file with another suffix is not analysed and gets a message", "a nonexistent path gives a non-zero exit status",
                            "ignored files are left out with --use-gitignore"],
                  outside="symbolic links, absolute / dotted / trailing-slash spellings of arguments, names with characters outside the alphabet, "
                          "a file named exactly '.c' or '.h' (not specified), git exit status 128, more entries than the bound")
    return R.report("C15", H.HNAME, tier, seed, agg, t0, bounds,
                    functions=["norminette.__main__.main (argparse, selection loop over the growing work list, suffix / kind tests, missing-path "
                               "abort, --use-gitignore filter, analysis loop, formatter call)", "norminette.file.File.__init__",
                               "HumanizedErrorsFormatter.__str__"],
                    assumptions=["stub (contract): pathlib.Path.exists/is_file/is_dir/name/suffix/stem/__str__ answered from the symbolic tree",
                                 "stub (contract): glob.glob(pattern, recursive) = fnmatch per component, '**' = zero or more non-hidden directories, "
                                 "hidden entries only matched by a pattern component starting with '.', any kind of entry can match",
                                 "stub (contract): git check-ignore -q exits 0 for an ignored path and 1 otherwise",
                                 "stub: Lexer yields no token, Registry.run records the file (every file is clean)",
                                 "the stub contracts are validated against the real OS: sampled witnesses of the explored classes are rebuilt as real "
                                 "directory trees and run through the real command line (traces_validated_against_impl)"])


@register("C08")
def c08(tier, seed, t0):
    from harness import errors_order as H
    res = R.run_pool(H.HNAME, H.chunks(tier), 150 if tier == "quick" else 1800, seed, tier,
                     extra=dict(sample_rate=0.05 if tier == "quick" else 0.02), shuffle=False)
    agg1 = R.merge(res)
    agg2, HE = edits("C08", tier, seed, 100 if tier == "quick" else 1500)
    agg = merge2(agg1, agg2)
    bounds = dict(wellformed_on_real_runs=EDIT_BOUNDS,
                  laws="3 diagnostics x 1..2 highlights each (quick: at most one diagnostic with 2); line/column unbounded integers >= 1; 3 names, 2 levels, 3 hint lengths",
                  order="2..3 (quick, <=4 highlights in total) / 2..4 (thorough) diagnostics x 1..2 highlights, every insertion order (positions symbolic)",
                  formats="every witness is pushed through both real formatters natively, with and without colours",
                  humanized_text="2..3 diagnostics with solver-chosen codes (incl. BAD_LEXEME and a repeated code) and levels whose TEXT is symbolic "
                                 "(2 characters each over printable ASCII): the real HumanizedErrorsFormatter runs on them and each printed line must "
                                 "carry its own diagnostic's text (z3 query), with and without colours",
                  precondition="highlights[0] is the smallest highlight of a diagnostic (true of every producer in the code base)",
                  outside="diagnostics without highlight (excluded by the property: 'a position inside the file'); catalogue/position "
                          "well-formedness on real runs is monitored by the C01/C09/C11 explorations")
    return report_multi("C08", {H.HNAME: agg1, HE.HNAME: agg2}, agg, tier, seed, t0, bounds,
                    ["every pipeline function reached by the edited programs (catalogue / level / position monitor)", "norminette.errors.Highlight.__lt__", "Error.__lt__", "Errors.__iter__ (list.sort with the real comparator)",
                               "Errors.add", "Errors.status", "Error.from_name", "HumanizedErrorsFormatter.__str__ (native, on witnesses)",
                               "JSONErrorsFormatter.__str__ (native, on witnesses)"],
                    ["json.dumps / dataclasses.asdict run natively on the concretised witness of each path class (C-level code)"])


@register("C03")
def c03(tier, seed, t0):
    from harness import limits as H
    res = R.run_pool(H.HNAME, H.chunks(tier), 170 if tier == "quick" else 1500, seed, tier,
                     extra=dict(sample_rate=0.3, chunk_time=120 if tier == "quick" else 600))
    agg = R.merge(res)
    bounds = dict(limits=H.LIMITS, measure="every n in [L-3, L+6] (solver-chosen, one class per value)",
                  width_contexts=H.WIDTH_CTX, lines_contexts=H.LINES_CTX, count_contexts=H.COUNT_CTX,
                  symbolic="filler identifiers / comment and string contents (so the verdict holds for every spelling of that width)",
                  outside="widths outside [77, 86]; other nesting depths / surrounding statements than the listed contexts")
    return R.report("C03", H.HNAME, tier, seed, agg, t0, bounds, functions=PIPE_FUNCS + [
        "CheckLineLen.run", "CheckCommentLineLen.run", "CheckLineCount.run", "CheckBrace.run", "CheckFunctionsCount.run",
        "CheckFuncDeclaration.run", "CheckVariableDeclaration.run", "Lexer.pop (tab stops)"],
        assumptions=["expected width of each line computed by the harness from the text it builds (tabs as 4-column stops)"])


@register("C13")
def c13(tier, seed, t0):
    from harness import header as H
    res = R.run_pool(H.HNAME, H.chunks(tier), 280 if tier == "quick" else 1500, seed, tier,
                     extra=dict(query_timeout=240 if tier == "quick" else 900))
    agg = R.merge(res)
    bounds = dict(fields="file name [A-Za-z0-9_.-]{1,41}, login [a-z0-9_-]{1,9}, mail [a-z0-9_.@-]{1,25}, dates dddd/dd/dd dd:dd:dd; "
                         "every line exactly 80 columns (a constraint, not an assumption about field lengths)",
                  regex_queries=[" ".join(map(str, m)) for m in H.mutations(tier)],
                  structural_shapes=H.STRUCT, instances=len(H.INSTANCES),
                  per_query_timeout_s=200 if tier == "quick" else 900,
                  outside="two simultaneous mutations; non-ASCII field values")
    return R.report("C13", H.HNAME, tier, seed, agg, t0, bounds,
                    functions=["CheckHeader.check_header (pattern string read from the AST, translated to a z3 regex)",
                               "CheckHeader.run / parse_header (real code through Registry.run)", "Lexer.parse_multi_line_comment"],
                    assumptions=["z3 sequence theory decides regex membership of the 11-line template over string variables",
                                 "sat answers are concretised and replayed through the real pipeline"])


@register("C14")
def c14(tier, seed, t0):
    from harness import guard as H
    res = R.run_pool(H.HNAME, H.chunks(tier), 150 if tier == "quick" else 1500, seed, tier,
                     extra=dict(sample_rate=0.3 if tier == "quick" else 0.1, chunk_time=60 if tier == "quick" else 300))
    agg = R.merge(res)
    bounds = dict(base_name="length 1..5 (quick) / 1..7 (thorough) over [a-z0-9_.], first character [a-z_], every character symbolic",
                  shapes=H.SHAPES, expected=H.EXPECT, file_types=[".h", ".c (no HEADER_PROT_* at all)"],
                  outside="names starting with a digit or dot (their guard is not a C identifier); names longer than the bound; combinations of two guard defects other than the listed g34 / g14 / g24 / g344 shapes (a doubled guard whose first copy is itself defective)")
    return R.report("C14", H.HNAME, tier, seed, agg, t0, bounds, functions=PIPE_FUNCS + [
        "CheckPreprocessorProtection.run", "IsPreprocessorStatement.run", "PreProcessors.has_macro_defined", "File.__init__ (basename/splitext modelled on symbolic names)"],
        assumptions=["independent oracle for the expected symbol: ASCII upper-casing and '.'->'_' as z3 definitions over fresh variables, + '_H'"])


@register("C07")
def c07(tier, seed, t0):
    from harness import conform as HC
    agg1, HE = edits("C07", tier, seed, 150 if tier == "quick" else 1800)
    n = 24 if tier == "quick" else 300
    cch = HC.chunks(tier, n)
    head = [c for c in cch if "maxi" in c or "commented" in c]          # the hand-written corner programs first
    res = R.run_pool(HC.HNAME, head + HC.violating_chunks(tier) + [c for c in cch if c not in head], 110 if tier == "quick" else 1500, seed, tier,
                     extra=dict(prop="C07", sample_rate=0.1 if tier == "quick" else 0.03, max_ops=1, chunk_time=40 if tier == "quick" else 120),
                     shuffle=False)
    agg2 = R.merge(res)
    agg = merge2(agg1, agg2)
    return report_multi("C07", {HE.HNAME: agg1, HC.HNAME: agg2}, agg, tier, seed, t0, dict(pipeline=EDIT_BOUNDS,
                        conforming_programs=dict(instances=n, micro_skeletons=True, symbolic="identifier / constant / literal slots, <= 1 operator slot"),
                        violating_programs=dict(operators=HC.STRUCT_OPS, bases="6 (quick) / 59 (thorough) generated .c programs + the maximal programs",
                                                sites="every applicable site of the operator (solver-chosen)",
                                                asserted="tiling / progress as above; a function header that follows a closed function is processed at file level"),
                        monitor="test-side wrapper around Context.pop_tokens: (jump, tokens before, len(history), first token column/line, last token "
                                "type, scope class and level) per main-loop iteration",
                        asserted=["every iteration consumes >= 1 token", "segments are consecutive and cover the stream when run() returns",
                                  "an unrecognised token (pop_tokens(1) without a matching rule) makes the run end with CParsingError when debug == 0 "
                                  "-- also when it is the last thing in a file without trailing newline",
                                  "conforming programs: one statement per generated line, each starting at column 1 and ending with NEWLINE; scope is "
                                  "GlobalScope (level 0) after each function's closing brace and never GlobalScope inside a function body"]),
                        PIPE_FUNCS, ["a statement is 'unrecognised' iff pop_tokens is called without a new history entry"])


@register("C06")
def c06(tier, seed, t0):
    from harness import purity as HP
    agg1, HE = edits("C06", tier, seed, 170 if tier == "quick" else 1800)
    res = R.run_pool(HP.HNAME, HP.chunks(tier), 150 if tier == "quick" else 600, seed, tier, extra=dict(chunk_time=140))
    agg2 = R.merge(res)
    agg = merge2(agg1, agg2)
    bounds = dict(pipeline=EDIT_BOUNDS,
                  footprint="sys.getrecursionlimit(); every module-level list/dict/set of norminette.* and what every module-level iterator still holds (read from a deep copy); class attributes of classes defined "
                            "there (except Rule.context / Rule.name, which Rule.__new__ rewrites before any use); rules.primaries / rules.checks "
                            "order; Registry.dependencies (empty keys dropped)",
                  claim="inductive: processing ANY explored file (clean, erroneous, fatal, crashing) leaves the footprint unchanged, hence no "
                        "history of such files can influence a later analysis",
                  rule_order="z3 query: no two import orders give different stable-sort results for the loaded priorities; dependency lists have "
                             "unique names; re-import under 3 permuted directory listings gives identical orders",
                  two_run=dict(histories=sorted(HP.HISTORIES), probes=sorted(HP.PROBES), checks=["A;B vs B", "B;B vs B"]))
    return report_multi("C06", {HE.HNAME: agg1, HP.HNAME: agg2}, agg, tier, seed, t0, bounds,
                        PIPE_FUNCS + ["IsPreprocessorStatement.recursion_limit", "Rule.__new__", "Rules.__init__", "Registry.__init__"],
                        ["state outside the footprint list (none found by reading the code) is not observed",
                         "two-run pairs are a fixed probe set (direct check); the footprint invariant is what extends to arbitrary histories"])


@register("C12")
def c12(tier, seed, t0):
    from harness import respell as H
    N = 3 if tier == "quick" else 4
    res = R.run_pool(H.HNAME, H.chunks(tier, N), 110 if tier == "quick" else 2400, seed, tier,
                     extra=dict(sample_rate=0.03 if tier == "quick" else 0.01))
    agg1 = R.merge(res)
    npipe = 24 if tier == "quick" else 240
    res2 = R.run_pool(H.HNAME, H.pipeline_chunks(tier, npipe), 90 if tier == "quick" else 1200, seed, tier,
                      extra=dict(sample_rate=0.1, chunk_time=50 if tier == "quick" else 200))
    agg2 = R.merge(res2)
    agg = merge2(agg1, agg2)
    bounds = dict(token_level=dict(window_chars=N, alphabet="ASCII without '?' and backslash in the base window (so the base has no splice/trigraph)",
                                   punctuator_family="windows of 4 (quick: alphabet %r; thorough: %r) and 5 (thorough, first alphabet) characters, every "
                                                     "character symbolic over that alphabet" % (H.PUNCT_Q, H.PUNCT_T),
                                   edits=["backslash-newline at every token boundary", "??/-newline at every token boundary", "both forms in a row, in both orders",
                                          "trigraph respelling of every punctuator character { } [ ] # ^ | ~", "digraph respelling of { } [ ] #"],
                                   skipped="windows whose base lexing raises or carries a lexical diagnostic; windows containing a digraph; "
                                           "digraph sites where C's own longest match would change the tokens (DESIGN 4.12 scope rule)"),
                  pipeline_level=dict(programs=npipe, sites="<= 3 occurrences of { } [ ] per file (solver-chosen subset), trigraph or digraph table; "
                                                          "sites on lines with tabs to their right, strings or chars are not respelled; lines stay <= 80",
                                      compared="multiset of (code, line)"),
                  outside="respelling inside literals/comments (C10/C17); windows longer than the bound")
    return R.report("C12", H.HNAME, tier, seed, agg, t0, bounds, functions=LEX_FUNCS + PIPE_FUNCS,
                    assumptions=["two real lexer / pipeline runs per path class on the same symbolic characters"])


@register("C16")
def c16(tier, seed, t0):
    from harness import options as H
    res = R.run_pool(H.HNAME, H.chunks(tier), 170 if tier == "quick" else 2400, seed, tier,
                     extra=dict(sample_rate=0.1 if tier == "quick" else 0.03, chunk_time=60 if tier == "quick" else 300), shuffle=False)
    agg = R.merge(res)
    bounds = dict(pipeline_runs="per path class: debug 0, debug D (solver-chosen 1..2), -R <word> (3 or 11 symbolic letters, != CheckDefine), -R CheckDefine",
                  texts=dict(define_programs=sorted(H.DEFINE_PROGS), edited_programs="one inserted lexeme (length 1..3, solver-chosen spelling) at every "
                             "4th (quick) / every (thorough) token boundary of fn.c, gl.c (+ ty.h, pp.c thorough)"),
                  cli_R="real main() on a file with #define diagnostics: -R <word>, every letter of the word symbolic, 1..14 letters "
                        "(quick: 1, 10..13), delivered in the shape the real argparse configuration produces, versus no -R",
                  cli=dict(content="--cfile / --hfile content of 0..2 (quick) / 0..3 (thorough) symbolic ASCII characters vs the same content read from n.c / n.h",
                           options=H.OPTS, note="argparse runs for real on the other arguments; the content argument is substituted after parsing"),
                  outside="-f json with symbolic diagnostics (json.dumps is C code; format equality is C08's subject); longer inline contents")
    return R.report("C16", H.HNAME, tier, seed, agg, t0, bounds, functions=PIPE_FUNCS + [
        "norminette.__main__.main", "File.source", "Context.__init__ (debug, skip_define)", "CheckPreprocessorDefine.run",
        "IsExpressionStatement (debug-dependent branch)", "CheckUtypeDeclaration (debug-dependent branch)"],
        assumptions=["stub: open() of the one scratch file returns the symbolic content (C16c)",
                     "only files analysed to a verdict in both configurations are compared (the property's restriction)"])


@register("C02")
def c02(tier, seed, t0):
    from harness import enforce as H, violations as V
    n = int(os.environ.get("VERIF_N", 0)) or (10 if tier == "quick" else 40)
    res = R.run_pool(H.HNAME, H.chunks(tier, n), 170 if tier == "quick" else 3000, seed, tier,
                     extra=dict(sample_rate=0.15 if tier == "quick" else 0.03, chunk_time=45 if tier == "quick" else 120,
                                max_paths=250 if tier == "quick" else 400), shuffle=False)
    agg = R.merge(res)
    bounds = dict(program_instances=n, operators={k: sorted(v[1]) for k, v in sorted(V.OPS.items())},
                  sites="<= 4 sites per operator and program, spread over the file; the site is a solver-chosen index (one class per site)",
                  symbolic="every identifier / macro / include-path slot (first letter avoiding l/u/L/U)",
                  outside="two simultaneous violations; operators of DESIGN 4.2 not implemented here: 09, 23/34-36/81 (C03's subject), 71 (tab form), "
                          "75 (#else / #if forms), 76, 77 (enum / union forms); 40 and 59 were dropped at calibration; violations of rules the tool "
                          "does not enforce at all")
    return R.report("C02", H.HNAME, tier, seed, agg, t0, bounds, functions=PIPE_FUNCS,
                    assumptions=["expected code per operator: DESIGN.md 4.2 catalogue, calibrated on the pinned tool",
                                 "internal exceptions on an edited file are C05's subject and not counted here"])


def main():
    ap = argparse.ArgumentParser()
    ap.add_argument("prop")
    ap.add_argument("--tier", default=os.environ.get("VERIF_TIER", "quick"))
    ap.add_argument("--replay")
    a = ap.parse_args()
    if a.replay:
        sys.exit(R.replay_file(a.replay))
    seed = int(os.environ.get("VERIF_SEED", "0") or 0)
    if a.prop not in REG:
        print(f"unknown property {a.prop}")
        sys.exit(3)
    t0 = time.time()
    code = REG[a.prop](a.tier, seed, t0)
    R.native().close()
    sys.exit(code)


if __name__ == "__main__":
    main()
