"""Check framework: chunked parallel exploration, native confirmation/validation, findings triage
against known_findings.json, evidence files, exit codes (DESIGN.md section 6).

Exit codes: 0 = held on everything explored (known findings printed), 1 = replay-confirmed new
violation (VIOLATION line), 3 = inconclusive / harness error (never success).
"""
import os
import sys
import json
import time
import hashlib
import random
import subprocess
import multiprocessing as mp
import importlib
import traceback

VERIF = os.path.dirname(os.path.dirname(os.path.abspath(__file__)))
PY = os.path.join(VERIF, ".venv", "bin", "python")
EVID = os.path.join(VERIF, "evidence")
REPLAYS = os.path.join(EVID, "replays")
NCPU = min(int(os.environ.get("VERIF_PROCS") or 16), os.cpu_count() or 1)
# VERIF_BUDGET_SCALE < 1 shortens every exploration budget (rehearsals of the thorough tier); the evidence records it
SCALE = float(os.environ.get("VERIF_BUDGET_SCALE") or 1.0)


# ------------------------------------------------------------------ native server client
class Native:
    def __init__(self):
        self.p = None

    def _start(self):
        env = dict(os.environ, PYTHONDONTWRITEBYTECODE="1", PYTHONPATH=VERIF)
        self.p = subprocess.Popen([PY, "-m", "symx.native"], stdin=subprocess.PIPE, stdout=subprocess.PIPE,
                                  stderr=subprocess.DEVNULL, cwd=VERIF, env=env, text=True, bufsize=1)

    def call(self, hname, case, limit=20):
        for attempt in (0, 1):
            if self.p is None or self.p.poll() is not None:
                self._start()
            try:
                self.p.stdin.write(json.dumps({"h": hname, "case": case, "limit": limit}) + "\n")
                self.p.stdin.flush()
                line = self.p.stdout.readline()
                if line:
                    return json.loads(line)
            except (BrokenPipeError, OSError):
                pass
            self.close()
        return {"crash": "native server died"}

    def close(self):
        if self.p is not None:
            try:
                self.p.kill()
                self.p.wait()
            except Exception:
                pass
            self.p = None


_native = None


def native():
    global _native
    if _native is None:
        _native = Native()
    return _native


# ------------------------------------------------------------------ per-chunk collector (worker side)
class Collector:
    """collects candidate violations and witnesses during one chunk; confirms them natively"""

    def __init__(self, hname, seed=0, sample_rate=0.1, max_witness=400):
        self.hname = hname
        self.rng = random.Random(seed)
        self.sample_rate = sample_rate
        self.max_witness = max_witness
        self.cands = {}      # fingerprint -> dict(what, case, count)
        self.witness = []    # (case, digest)
        self.samples = []
        self.notes = {}
        self.gaps = {}
        self.hangs = {}
        self.counters = {}
        self.probes = {}

    def count(self, k, n=1):
        self.counters[k] = self.counters.get(k, 0) + n

    def violation(self, fingerprint, what, case):
        c = self.cands.get(fingerprint)
        if c is None:
            self.cands[fingerprint] = dict(what=what, case=case, count=1)
        else:
            c["count"] += 1

    def probe(self, fingerprint, case):
        """an observation that belongs to ANOTHER property's check (e.g. an exception met while checking positions): it is
        only confirmed natively.  Reproduces -> left to that property's check; does not reproduce -> the instrumented run
        disagrees with the real code, which makes this check inconclusive"""
        self.probes.setdefault(fingerprint, case)

    def gap(self, text):
        self.gaps[text] = self.gaps.get(text, 0) + 1

    def want_witness(self):
        return len(self.witness) < self.max_witness and self.rng.random() < self.sample_rate

    def add_witness(self, case, digest):
        self.witness.append((case, digest))
        if len(self.samples) < 3:
            self.samples.append(dict(case=case, digest=digest))

    def finish(self, limit=20):
        """native confirmation of candidates and validation of witnesses"""
        nat = native()
        confirmed, unconfirmed = [], []
        for fp, c in self.cands.items():
            r = nat.call(self.hname, c["case"], limit)
            fps = [v[0] for v in r.get("violations", [])]
            if "hang" in r:
                fps.append("hang::" + r["hang"])
            if fp in fps:
                confirmed.append(dict(fingerprint=fp, what=c["what"], case=c["case"], count=c["count"]))
            elif fp.startswith("hang::") and "hang" not in r and "crash" not in r:
                # the per-path alarm fired in the (much slower) instrumented run but the native run terminates:
                # a slow path, not a hang.  Counted as not analysed (coverage), not as a finding.
                self.count("slow_paths_not_analysed", c["count"])
            else:
                unconfirmed.append(dict(fingerprint=fp, what=c["what"], case=c["case"], native=r))
        for fp, case in self.probes.items():
            r = nat.call(self.hname, case, limit)
            fps = [v[0] for v in r.get("violations", [])]
            if fp in fps:
                self.count("observations_left_to_another_property", 1)
            else:
                unconfirmed.append(dict(fingerprint=fp, what="observed in the instrumented run only", case=case, native=r))
        validated, mismatches = 0, []
        seen_fp = {c["fingerprint"] for c in confirmed}
        for case, digest in self.witness:
            r = nat.call(self.hname, case, limit)
            if r.get("violations"):
                # the oracle evaluated on the REAL code for this concrete witness reports a violation that the
                # symbolic run could not see (parts of some properties are decided natively, e.g. the two
                # formatters run in C code): a confirmed violation, not an engine disagreement
                for fp, what in r["violations"]:
                    if fp not in seen_fp:
                        seen_fp.add(fp)
                        confirmed.append(dict(fingerprint=fp, what=what, case=case, count=1))
                continue
            if r.get("digest") == json.loads(json.dumps(digest, default=str)):
                validated += 1
            else:
                mismatches.append(dict(case=case, symbolic=digest, native=r))
        return dict(confirmed=confirmed, unconfirmed=unconfirmed, validated=validated, mismatches=mismatches[:5],
                    n_mismatch=len(mismatches), samples=self.samples, gaps=self.gaps, counters=self.counters,
                    notes=self.notes)


# ------------------------------------------------------------------ pool
def _worker(args):
    hname, chunk, deadline, seed, tier, extra = args
    t0 = time.time()
    if t0 > deadline:
        return dict(chunk=chunk, skipped=True)
    try:
        from . import hook
        hook.install()
        m = importlib.import_module(hname)
        res = m.run_chunk(chunk, dict(extra or {}, deadline=deadline, seed=seed, tier=tier))
        res["chunk"] = chunk
        res["wall"] = time.time() - t0
        return res
    except BaseException as e:   # noqa
        return dict(chunk=chunk, error=f"{type(e).__name__}: {e}", tb=traceback.format_exc()[-2000:])


def run_pool(hname, chunks, budget_s, seed, tier, procs=NCPU, extra=None, shuffle=True):
    deadline = time.time() + budget_s * SCALE
    rnd = random.Random(seed)
    order = list(chunks)
    if shuffle:
        rnd.shuffle(order)
    tasks = [(hname, c, deadline, seed + i, tier, extra) for i, c in enumerate(order)]
    if procs <= 1 or len(tasks) <= 1:
        return [_worker(t) for t in tasks]
    ctx = mp.get_context("fork")
    with ctx.Pool(min(procs, len(tasks)), maxtasksperchild=None) as pool:
        out = list(pool.imap_unordered(_worker, tasks, chunksize=1))
    return out


# ------------------------------------------------------------------ known findings
def load_known(prop):
    path = os.path.join(VERIF, "known_findings.json")
    if not os.path.exists(path):
        return {}, {}
    data = json.load(open(path))
    finding, fixed = {}, {}
    for e in data.get("entries", []):
        if e.get("property") != prop:
            continue
        (finding if e.get("status") == "finding" else fixed)[e["fingerprint"]] = e
    return finding, fixed


# ------------------------------------------------------------------ aggregate + report
def merge(results):
    agg = dict(paths=0, queries=0, sat=0, unsat=0, unknown=0, solver_time_s=0.0, forks=0, vacuous=0, gaps=0,
               validated=0, n_mismatch=0, frontier_left=0, chunks=len(results), chunks_skipped=0,
               chunks_cut=0, errors=[], confirmed={}, unconfirmed=[], mismatches=[], samples=[], gap_texts={},
               counters={}, notes={}, functions=set())
    for r in results:
        if r.get("skipped"):
            agg["chunks_skipped"] += 1
            continue
        if "error" in r:
            agg["errors"].append(dict(chunk=r["chunk"], error=r["error"], tb=r.get("tb")))
            continue
        st = r.get("stats", {})
        agg["functions"].update(st.get("functions", []))
        for k in ("paths", "queries", "sat", "unsat", "unknown", "forks", "vacuous", "gaps", "frontier_left"):
            agg[k] += st.get(k, 0)
        agg["solver_time_s"] += st.get("solver_time_s", 0.0)
        if not st.get("exhaustive", True):
            agg["chunks_cut"] += 1
        agg["validated"] += r.get("validated", 0)
        agg["n_mismatch"] += r.get("n_mismatch", 0)
        agg["mismatches"] += r.get("mismatches", [])[:2]
        agg["unconfirmed"] += r.get("unconfirmed", [])
        for c in r.get("confirmed", []):
            d = agg["confirmed"].get(c["fingerprint"])
            if d is None:
                agg["confirmed"][c["fingerprint"]] = dict(c)
            else:
                d["count"] += c["count"]
        if len(agg["samples"]) < 6:
            agg["samples"] += r.get("samples", [])[:2]
        for k, v in r.get("gaps", {}).items():
            agg["gap_texts"][k] = agg["gap_texts"].get(k, 0) + v
        for k, v in r.get("counters", {}).items():
            agg["counters"][k] = agg["counters"].get(k, 0) + v
        for k, v in r.get("notes", {}).items():
            agg["notes"].setdefault(k, v)
    return agg


def write_replay(prop, hname, finding):
    os.makedirs(REPLAYS, exist_ok=True)
    h = hashlib.sha1(finding["fingerprint"].encode()).hexdigest()[:12]
    path = os.path.join(REPLAYS, f"{prop}-{h}.json")
    json.dump(dict(property=prop, harness=hname, fingerprint=finding["fingerprint"], what=finding["what"],
                   case=finding["case"],
                   how=f"./check {prop} --replay {path}"), open(path, "w"), indent=1, default=str)
    return path


def report(prop, hname, tier, seed, agg, t0, bounds, extra_cov=None, assumptions=None, functions=None,
           level="model_checking", require_validated=True):
    """print verdict lines, write evidence, return exit code"""
    known, fixed = load_known(prop)
    new, seen_known = [], []
    for fp, c in sorted(agg["confirmed"].items()):
        if fp in known:
            seen_known.append(fp)
            print(f"KNOWN-FINDING: property={prop} {known[fp].get('what', c['what'])} [{fp}]")
        else:
            new.append(c)
    stale = [fp for fp in known if fp not in agg["confirmed"]]
    code = 0
    for c in new[:40]:
        path = write_replay(prop, hname, c)
        print(f"VIOLATION property={prop} replay={path}")
        print(f"  what: {c['what']}  [{c['fingerprint']}]" + ("  (listed as fixed: it has returned)" if c["fingerprint"] in fixed else ""))
        code = 1
    if len(new) > 40:
        print(f"  ... and {len(new) - 40} further distinct violation fingerprints (listed in the evidence file)")
    inconclusive = []
    if agg["errors"]:
        inconclusive.append(f"{len(agg['errors'])} chunk(s) crashed: {agg['errors'][0]['error']}")
    if agg["unconfirmed"]:
        u = agg["unconfirmed"][0]
        inconclusive.append(f"{len(agg['unconfirmed'])} candidate(s) did not reproduce natively, e.g. {u['fingerprint']}")
    if agg["n_mismatch"]:
        inconclusive.append(f"{agg['n_mismatch']} witness(es) disagree with the native implementation")
    if agg["gaps"] or agg["gap_texts"]:
        inconclusive.append(f"engine gaps on {agg['gaps']} path(s): {list(agg['gap_texts'].items())[:3]}")
    if agg["unknown"]:
        inconclusive.append(f"{agg['unknown']} solver query(ies) answered unknown")
    if agg["paths"] == 0:
        inconclusive.append("no path explored")
    elif agg["paths"] == agg["vacuous"]:
        inconclusive.append("every path cut by assumptions (vacuous harness)")
    for msg in inconclusive:
        print(f"INCONCLUSIVE property={prop} reason={msg}")
    if inconclusive and code == 0:
        code = 3
    exhaustive = (agg["chunks_skipped"] == 0 and agg["chunks_cut"] == 0 and not agg["errors"])
    cov = dict(
        states=max(agg["paths"], 0), transitions=max(agg["queries"], 0),
        traces_validated_against_impl=agg["validated"],
        samples=agg["samples"][:6] or [dict(note="no witness sampled")],
        exhaustive=exhaustive, frontier_left=agg["frontier_left"], chunks=agg["chunks"],
        chunks_not_reached=agg["chunks_skipped"], chunks_cut_by_budget=agg["chunks_cut"],
        solver=dict(name="z3", version=_z3v(), queries=agg["queries"], sat=agg["sat"], unsat=agg["unsat"],
                    unknown=agg["unknown"], time_s=round(agg["solver_time_s"], 2)),
        vacuous_paths=agg["vacuous"], engine_gaps=agg["gap_texts"], counters=agg["counters"],
        bounds=bounds, functions_encoded=list(functions or []),
        functions_entered_on_probed_paths=sorted(agg.get("functions", [])),
        known_findings_seen=seen_known, stale_findings=stale,
        new_violations=[dict(fingerprint=c["fingerprint"], what=c["what"]) for c in new],
        inconclusive=inconclusive, notes=agg["notes"],
    )
    if extra_cov:
        cov.update(extra_cov)
    if SCALE != 1.0:
        cov["budget_scale"] = SCALE
    ev = dict(property_id=prop, tier=tier, seed=seed, level=level, coverage=cov,
              assumptions=assumptions or [], wall_s=round(time.time() - t0, 2), violations=len(new))
    os.makedirs(EVID, exist_ok=True)
    json.dump(ev, open(os.path.join(EVID, f"{prop}.json"), "w"), indent=1, default=str)
    print(f"{prop} [{tier}] paths={agg['paths']} queries={agg['queries']} validated={agg['validated']} "
          f"known={len(seen_known)} new={len(new)} stale={len(stale)} exhaustive={exhaustive} "
          f"wall={time.time() - t0:.1f}s exit={code}")
    return code


def _z3v():
    try:
        import z3
        return z3.get_version_string()
    except Exception:
        return "?"


def replay_file(path):
    data = json.load(open(path))
    r = native().call(data["harness"], data["case"], 30)
    print(json.dumps(r, indent=1, default=str))
    fps = [v[0] for v in r.get("violations", [])]
    if "hang" in r:
        fps.append("hang::" + r["hang"])
    if data["fingerprint"] in fps:
        print(f"VIOLATION property={data['property']} replay={path}")
        return 1
    print("not reproduced")
    return 0
