"""Helpers that work on both symbolic proxies (inside an exploration) and plain values (native replay)."""
import z3
from . import core
from .core import SymStr, SymInt, k_in, key_expr


def ch_in(c, chars):
    """c: 1-char str | SymStr of length 1; chars: str of allowed characters"""
    if type(c) is str:
        return c in chars
    return core._b(k_in(c.it[0], map(ord, chars)))


def ch_in_codes(c, codes):
    if type(c) is str:
        return ord(c) in codes
    return core._b(k_in(c.it[0], codes))


def starts(w, i, lit):
    if i + len(lit) > len(w):
        return False
    return w[i:i + len(lit)] == lit


def feasible(cond):
    """can `cond` hold on the current path class?  cond: bool | z3 BoolRef"""
    if isinstance(cond, bool):
        return cond
    return core.RUN.feasible(cond)


def ne(a, b):
    """condition 'a != b' for ints / SymInts"""
    if isinstance(a, int) and isinstance(b, int):
        return a != b
    return SymInt.lift(a) != SymInt.lift(b)


def gt(a, b):
    if isinstance(a, int) and isinstance(b, int):
        return a > b
    return SymInt.lift(a) > SymInt.lift(b)


def le(a, b):
    if isinstance(a, int) and isinstance(b, int):
        return a <= b
    return SymInt.lift(a) <= SymInt.lift(b)


def lt(a, b):
    if isinstance(a, int) and isinstance(b, int):
        return a < b
    return SymInt.lift(a) < SymInt.lift(b)


def eq(a, b):
    if isinstance(a, int) and isinstance(b, int):
        return a == b
    return SymInt.lift(a) == SymInt.lift(b)


def c_or(*cs):
    cs = [c for c in cs if c is not False]
    if any(c is True for c in cs):
        return True
    if not cs:
        return False
    return cs[0] if len(cs) == 1 else z3.Or(*cs)


def c_and(*cs):
    cs = [c for c in cs if c is not True]
    if any(c is False for c in cs):
        return False
    if not cs:
        return True
    return cs[0] if len(cs) == 1 else z3.And(*cs)


def c_not(c):
    if isinstance(c, bool):
        return not c
    return z3.Not(c)


def str_ne(a, b):
    """condition 'a != b' for str / SymStr (no fork)"""
    if isinstance(a, str) and isinstance(b, str):
        return a != b
    if a is None or b is None:
        return (a is None) != (b is None)
    if isinstance(a, str):
        a, b = b, a
    k = a.eq_key(b)
    if k is True:
        return False
    if k is False:
        return True
    return z3.Not(key_expr(k))


def conc(x, m=None):
    """concrete value of a possibly symbolic value under model m (default: a model of the current path)"""
    if isinstance(x, (SymInt, SymStr)):
        if m is None:
            m = core.RUN.model()
        if isinstance(x, SymInt):
            return m.eval(x.e, model_completion=True).as_long()
        return x.concretize(m)
    if isinstance(x, (list, tuple)):
        if m is None and any_sym(x):
            m = core.RUN.model()
        return [conc(y, m) for y in x]
    if isinstance(x, dict):
        if m is None and any_sym(list(x.values())):
            m = core.RUN.model()
        return {k: conc(v, m) for k, v in x.items()}
    return x


def any_sym(x):
    if isinstance(x, (SymInt, SymStr)):
        return True
    if isinstance(x, (list, tuple)):
        return any(any_sym(y) for y in x)
    if isinstance(x, dict):
        return any(any_sym(y) for y in x.values())
    return False


def witness(cond):
    """model of (path AND cond) or None; cond: bool | z3 BoolRef"""
    if cond is False:
        return None
    if cond is True:
        return core.RUN.model() if core.RUN is not None else True
    if core.RUN.feasible(cond):
        return core.RUN.solver.model()
    return None
