"""Import hook: loads /repo/norminette/**.py from the working tree, applies the AST rewrite of
DESIGN.md 2.2 and compiles it.  Nothing is cached from /repo (no __pycache__ use)."""
import ast
import sys
import importlib.abc
import importlib.machinery
from . import core, regex


class _RT:
    """namespace object injected as `_symrt_` into every rewritten module"""
    contains = staticmethod(core.contains)
    getitem = staticmethod(core.getitem)
    join = staticmethod(core.join)
    fstr = staticmethod(core.fstr)
    fval = staticmethod(core.fval)
    rt_get = staticmethod(core.rt_get)
    rt_set = staticmethod(core.rt_set)
    rt_str = staticmethod(core.rt_str)
    rt_add = staticmethod(core.rt_add)
    setitem = staticmethod(core.setitem)
    rt_len = staticmethod(core.rt_len)
    rt_range = staticmethod(core.rt_range)
    rt_enumerate = staticmethod(core.rt_enumerate)
    rt_getattr = staticmethod(core.rt_getattr)
    rt_print = staticmethod(core.rt_print)
    rt_isinstance = staticmethod(core.rt_isinstance)
    concrete_if_unique = staticmethod(core.concrete_if_unique)
    rt_splitext = staticmethod(core.rt_splitext)
    rt_basename = staticmethod(core.rt_basename)
    ReShim = regex.ReShim
    FunctoolsShim = core.FunctoolsShim


RT = _RT()


def _rt(attr):
    return ast.Attribute(value=ast.Name(id="_symrt_", ctx=ast.Load()), attr=attr, ctx=ast.Load())


def _at(new, old):
    """give a synthesised node (and its synthesised children) the source position of the node it replaces, so
    that tracebacks of the instrumented code name the same source line as the native code"""
    for n in ast.walk(new):
        if not hasattr(n, "lineno") or getattr(n, "lineno", None) is None:
            ast.copy_location(n, old)
    return new


class Rewriter(ast.NodeTransformer):
    def visit(self, node):
        new = super().visit(node)
        if isinstance(new, ast.AST) and new is not node and isinstance(node, ast.expr):
            _at(new, node)
        return new

    def visit_Compare(self, node):
        self.generic_visit(node)
        if len(node.ops) == 1 and isinstance(node.ops[0], (ast.In, ast.NotIn)):
            call = ast.Call(func=_rt("contains"), args=[node.comparators[0], node.left], keywords=[])
            return ast.UnaryOp(op=ast.Not(), operand=call) if isinstance(node.ops[0], ast.NotIn) else call
        return node

    def visit_Subscript(self, node):
        self.generic_visit(node)
        if isinstance(node.ctx, ast.Load) and not isinstance(node.slice, ast.Slice):
            return ast.Call(func=_rt("getitem"), args=[node.value, node.slice], keywords=[])
        return node

    def visit_Call(self, node):
        self.generic_visit(node)
        f = node.func
        if isinstance(f, ast.Attribute) and f.attr == "join" and len(node.args) == 1 and not node.keywords:
            return ast.Call(func=_rt("join"), args=[f.value, node.args[0]], keywords=[])
        if isinstance(f, ast.Attribute) and f.attr == "add" and len(node.args) == 1 and not node.keywords:
            return ast.Call(func=_rt("rt_add"), args=[f.value, node.args[0]], keywords=[])
        if isinstance(f, ast.Attribute) and f.attr == "get" and len(node.args) in (1, 2) and not node.keywords:
            return ast.Call(func=_rt("rt_get"), args=[f.value] + node.args, keywords=[])
        if isinstance(f, ast.Name):
            if f.id == "len" and len(node.args) == 1:
                return ast.Call(func=_rt("rt_len"), args=node.args, keywords=[])
            if f.id == "str" and len(node.args) == 1 and not node.keywords:
                return ast.Call(func=_rt("rt_str"), args=node.args, keywords=[])
            if f.id == "set" and len(node.args) <= 1 and not node.keywords:
                return ast.Call(func=_rt("rt_set"), args=node.args, keywords=[])
            if f.id in ("enumerate", "range", "getattr", "print", "isinstance"):
                return ast.Call(func=_rt("rt_" + f.id), args=node.args, keywords=node.keywords)
        root = f
        while isinstance(root, ast.Attribute):
            root = root.value
        if isinstance(root, ast.Name) and root.id == "os" and isinstance(f, ast.Attribute) \
                and f.attr in ("splitext", "basename") and len(node.args) == 1 and not node.keywords:
            return ast.Call(func=_rt("rt_" + f.attr), args=node.args, keywords=[])
        if isinstance(root, ast.Name) and root.id == "os" and isinstance(f, ast.Attribute):
            node.args = [ast.Call(func=_rt("concrete_if_unique"), args=[a], keywords=[]) for a in node.args]
        return node

    def visit_Assign(self, node):
        self.generic_visit(node)
        # x[k] = v  ->  _symrt_.setitem(x, k, v)   (single target, plain index: dict stores with symbolic keys)
        if len(node.targets) == 1 and isinstance(node.targets[0], ast.Subscript) and not isinstance(node.targets[0].slice, ast.Slice):
            t = node.targets[0]
            value = ast.Subscript(value=t.value, slice=t.slice, ctx=ast.Load())
            call = ast.Call(func=_rt("setitem"), args=[t.value, t.slice, node.value], keywords=[])
            return _at(ast.Expr(value=call), node)
        return node

    def visit_Import(self, node):
        if any(a.name in ("re", "functools") for a in node.names):
            out = []
            for a in node.names:
                if a.name == "re":
                    out.append(ast.Assign(targets=[ast.Name(id=a.asname or "re", ctx=ast.Store())],
                                          value=ast.Call(func=_rt("ReShim"), args=[], keywords=[])))
                elif a.name == "functools":
                    out.append(ast.Assign(targets=[ast.Name(id=a.asname or "functools", ctx=ast.Store())],
                                          value=ast.Call(func=_rt("FunctoolsShim"), args=[], keywords=[])))
                else:
                    out.append(ast.Import(names=[a]))
            return out
        return node

    def visit_ImportFrom(self, node):
        # from functools import lru_cache, cache  ->  taken from the shim
        if node.module == "functools" and node.level == 0:
            out = []
            rest = []
            for a in node.names:
                if a.name in ("lru_cache", "cache"):
                    out.append(ast.Assign(targets=[ast.Name(id=a.asname or a.name, ctx=ast.Store())],
                                          value=ast.Attribute(value=ast.Call(func=_rt("FunctoolsShim"), args=[], keywords=[]), attr=a.name, ctx=ast.Load())))
                else:
                    rest.append(a)
            if rest:
                out.insert(0, ast.ImportFrom(module="functools", names=rest, level=0))
            return out
        return node

    def visit_JoinedStr(self, node):
        self.generic_visit(node)
        parts = []
        for v in node.values:
            if isinstance(v, ast.FormattedValue):
                if v.format_spec is None and v.conversion == -1:
                    parts.append(v.value)
                else:
                    # {value!conv:spec}: the (already rewritten) spec is an ordinary expression here
                    spec = v.format_spec if v.format_spec is not None else ast.Constant(value="")
                    parts.append(ast.Call(func=_rt("fval"), args=[v.value, ast.Constant(value=v.conversion), spec], keywords=[]))
            else:
                parts.append(v)
        return ast.Call(func=_rt("fstr"), args=parts, keywords=[])

    def visit_AnnAssign(self, node):
        if node.value is not None:
            node.value = self.visit(node.value)
        return node

    def visit_arguments(self, node):
        return node


LOADED = {}


class _Loader(importlib.machinery.SourceFileLoader):
    def get_code(self, fullname):
        path = self.get_filename(fullname)
        data = self.get_data(path)
        tree = ast.parse(data, path)
        tree = Rewriter().visit(tree)
        ast.fix_missing_locations(tree)
        LOADED[fullname] = path
        return compile(tree, path, "exec", dont_inherit=True)

    def exec_module(self, module):
        module.__dict__["_symrt_"] = RT
        super().exec_module(module)


class _Finder(importlib.abc.MetaPathFinder):
    def find_spec(self, fullname, path, target=None):
        if fullname != "norminette" and not fullname.startswith("norminette."):
            return None
        spec = importlib.machinery.PathFinder.find_spec(fullname, path, target)
        if spec is None or not isinstance(spec.loader, importlib.machinery.SourceFileLoader):
            return spec
        spec.loader = _Loader(spec.loader.name, spec.loader.path)
        return spec


_installed = False


def install(repo=None):
    global _installed
    from . import REPO
    repo = repo or REPO
    if _installed:
        return
    assert not any(m == "norminette" or m.startswith("norminette.") for m in sys.modules), \
        "norminette imported before the symx hook"
    sys.dont_write_bytecode = True
    if repo not in sys.path:
        sys.path.insert(0, repo)
    sys.meta_path.insert(0, _Finder())
    core.install_alarm()
    _installed = True
