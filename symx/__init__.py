"""symx: bounded symbolic execution of the real norminette code (see DESIGN.md section 2)."""
import os

# the tree under analysis: /repo, or a snapshot of it (vp run --with-repo exports VP_RUN_REPO; ./check maps it to VERIF_REPO)
REPO = os.environ.get("VERIF_REPO") or "/repo"
