"""Native replay server: runs harness `replay(case)` functions against the UNMODIFIED norminette
package (no import hook, plain str/int inputs) in a separate interpreter.

Protocol: one JSON object per line on stdin  {"h": "<harness module>", "case": {...}, "limit": seconds}
          one JSON object per line on the saved stdout  {"digest": ..., "violations": [[fp, what], ...]}
                                                     or {"hang": "<site>"} / {"crash": "<text>"}
"""
import sys
import os
import json
import signal
import importlib
import traceback


class _Hang(BaseException):
    pass


def _alarm(*_a):
    raise _Hang()


def _fr(fr):
    return f"{fr.filename.split('/norminette/')[-1]}::{fr.name}::{' '.join((fr.line or '').split())[:70]}"


def site_of(tb, repo=None):
    from symx import REPO
    repo = repo or (REPO.rstrip("/") + "/")
    """innermost /repo frame; if that is a shared helper (not a rule module), also the innermost rule frame
    that called it -- the defect site is the caller that passes the bad index / missing token"""
    frames = [f for f in traceback.extract_tb(tb) if repo in f.filename]
    if not frames:
        return "?"
    inner = frames[-1]
    s = _fr(inner)
    if "/rules/" not in inner.filename:
        for fr in reversed(frames[:-1]):
            if "/rules/" in fr.filename:
                s += " <- " + _fr(fr)
                break
    return s


def hang_site(tb, repo=None):
    from symx import REPO
    repo = repo or (REPO.rstrip("/") + "/")
    """where a run was interrupted by the alarm: the interruption point inside a loop is arbitrary (helper calls,
    different lines of the loop body), so only the innermost RULE function (file::function) is kept; for a loop
    outside the rule layer the innermost file"""
    frames = [f for f in traceback.extract_tb(tb) if repo in f.filename]
    if not frames:
        return "?"
    for fr in reversed(frames):
        if "/rules/" in fr.filename:
            return f"{fr.filename.split('/norminette/')[-1]}::{fr.name}"
    return frames[-1].filename.split('/norminette/')[-1]


def serve():
    sys.dont_write_bytecode = True
    sys.path.insert(0, os.path.dirname(os.path.dirname(os.path.abspath(__file__))))
    from symx import REPO
    if REPO not in sys.path:
        sys.path.insert(0, REPO)
    out = os.fdopen(os.dup(1), "w")
    devnull = open(os.devnull, "w")
    os.dup2(devnull.fileno(), 1)
    sys.stdout = devnull
    signal.signal(signal.SIGALRM, _alarm)
    mods = {}
    for line in sys.stdin:
        line = line.strip()
        if not line:
            continue
        req = json.loads(line)
        try:
            m = mods.get(req["h"])
            if m is None:
                m = mods[req["h"]] = importlib.import_module(req["h"])
            signal.setitimer(signal.ITIMER_REAL, float(req.get("limit", 20)))
            try:
                res = m.replay(req["case"])
            finally:
                signal.setitimer(signal.ITIMER_REAL, 0)
        except _Hang as e:
            res = {"hang": hang_site(e.__traceback__)}
        except BaseException as e:   # noqa
            res = {"crash": f"{type(e).__name__}: {e}", "site": site_of(e.__traceback__),
                   "tb": traceback.format_exc()[-1500:]}
        out.write(json.dumps(res, default=str) + "\n")
        out.flush()


if __name__ == "__main__":
    serve()
