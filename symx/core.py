"""symx core: path-exploring symbolic executor (DESIGN.md section 2).

Symbolic proxies (SymInt, SymStr, Rope) backed by z3 terms; every comparison on a proxy is
decided eagerly by the solver (forks if both outcomes are feasible); DFS by re-execution with
one incremental z3 solver.  The injected runtime name in rewritten modules is `_symrt_`.
"""
import time
import signal
import z3


class EngineGap(BaseException):
    """an operation the engine does not model was applied to a symbolic value: path inconclusive"""


class Infeasible(BaseException):
    """a harness assume() made the current path infeasible"""


class PathTimeout(BaseException):
    """per-path alarm fired (candidate hang)"""


# ------------------------------------------------------------------ condition keys
class Var:
    """symbolic small-int variable (char code or enum index) with a declared finite domain"""
    __slots__ = ("name", "z", "dom", "defn")

    def __init__(self, name, dom):
        self.name, self.dom = name, frozenset(dom)
        self.z = z3.Int(name)
        self.defn = None

    def __repr__(self):
        return self.name

    def domain_constraint(self):
        return key_expr(("in", self, self.dom))


_expr_cache = {}
_z3_keep = {}


def _ranges(codes):
    codes = sorted(codes)
    out = []
    a = b = codes[0]
    for c in codes[1:]:
        if c == b + 1:
            b = c
        else:
            out.append((a, b))
            a = b = c
    out.append((a, b))
    return out


def key_expr(key):
    e = _expr_cache.get(key)
    if e is not None:
        return e
    k = key[0]
    if k == "in":
        v = key[1].z
        parts = [(v == a) if a == b else z3.And(v >= a, v <= b) for a, b in _ranges(key[2])]
        e = parts[0] if len(parts) == 1 else z3.Or(parts)
    elif k == "eqv":
        e = key[1].z == key[2].z
    elif k == "and":
        e = z3.And([key_expr(x) for x in key[1]])
    elif k == "or":
        e = z3.Or([key_expr(x) for x in key[1]])
    elif k == "not":
        e = z3.Not(key_expr(key[1]))
    elif k == "z3":
        e = _z3_keep[key[1]]
    else:
        raise EngineGap(f"key {k}")
    _expr_cache[key] = e
    return e


def k_in(var, codes):
    codes = frozenset(codes) & var.dom
    if not codes:
        return False
    if codes == var.dom:
        return True
    return ("in", var, codes)


def k_not(k):
    if k is True:
        return False
    if k is False:
        return True
    if k[0] == "not":
        return k[1]
    if k[0] == "in":
        return k_in(k[1], k[1].dom - k[2])
    return ("not", k)


def k_and(keys):
    out = []
    for k in keys:
        if k is False:
            return False
        if k is True:
            continue
        out.append(k)
    if not out:
        return True
    if len(out) == 1:
        return out[0]
    return ("and", tuple(out))


def k_or(keys):
    out = []
    for k in keys:
        if k is True:
            return True
        if k is False:
            continue
        out.append(k)
    if not out:
        return False
    if len(out) == 1:
        return out[0]
    byvar = {}
    rest = []
    for k in out:
        if k[0] == "in":
            byvar.setdefault(k[1], set()).update(k[2])
        else:
            rest.append(k)
    merged = [k_in(v, cs) for v, cs in byvar.items()]
    if any(m is True for m in merged):
        return True
    merged = [m for m in merged if m is not False] + rest
    if len(merged) == 1:
        return merged[0]
    return ("or", tuple(merged))


def k_z3(e):
    e = z3.simplify(e)
    if z3.is_true(e):
        return True
    if z3.is_false(e):
        return False
    i = e.get_id()
    _z3_keep[i] = e
    return ("z3", i)


def key_to_z3(k):
    if k is True:
        return z3.BoolVal(True)
    if k is False:
        return z3.BoolVal(False)
    return key_expr(k)


# ------------------------------------------------------------------ explorer
class Explorer:
    def __init__(self, timeout_ms=60000):
        self.solver = z3.Solver()
        self.solver.set("timeout", timeout_ms)
        self.trail = []   # [key, outcome, free, flipped]
        self.known = {}
        self.checks = self.paths = self.forks = 0
        self.n_sat = self.n_unsat = self.n_unknown = 0
        self.solver_time = 0.0
        self.vacuous = 0
        self.gaps = 0
        self.exhaustive = False
        self.path_defs = []     # definitional constraints added during a path (re-added on replay)
        self.functions_seen = set()

    # -- raw solver access with accounting
    def check(self, *assumptions):
        t0 = time.perf_counter()
        r = self.solver.check(*assumptions)
        self.solver_time += time.perf_counter() - t0
        self.checks += 1
        if r == z3.sat:
            self.n_sat += 1
        elif r == z3.unsat:
            self.n_unsat += 1
        else:
            self.n_unknown += 1
            raise EngineGap("solver answered unknown")
        return r

    def feasible(self, expr):
        """is path_condition AND expr satisfiable? (assertion queries: expr = negated assertion)"""
        if isinstance(expr, bool):
            return expr
        return self.check(expr) == z3.sat

    def branch(self, key):
        if key is True or key is False:
            return key
        k = self.known.get(key)
        if k is not None:
            return k
        e = key_expr(key)
        can_t = self.check(e) == z3.sat
        can_f = (self.check(z3.Not(e)) == z3.sat) if can_t else True
        if can_t and can_f:
            self.forks += 1
            self.solver.push()
            self.solver.add(e)
            self.known[key] = True
            self.trail.append([key, True, True, False])
            return True
        self.known[key] = can_t
        self.trail.append([key, can_t, False, True])
        return can_t

    def assume(self, key):
        """harness-level precondition: cut the path unless key can hold; no fork is recorded for the
        negative side (members violating the precondition are outside the family)"""
        if key is True:
            return
        if key is False:
            raise Infeasible()
        k = self.known.get(key)
        if k is True:
            return
        if k is False:
            raise Infeasible()
        e = key_expr(key)
        if self.check(e) != z3.sat:
            raise Infeasible()
        self.solver.push()
        self.solver.add(e)
        self.known[key] = True
        self.trail.append([key, True, True, True])   # free but already "flipped": never explore the negation

    def backtrack(self):
        while self.trail:
            ent = self.trail[-1]
            self.known.pop(ent[0], None)
            if ent[2] and not ent[3]:
                self.solver.pop()
                self.solver.push()
                self.solver.add(z3.Not(key_expr(ent[0])))
                ent[1], ent[3] = False, True
                self.known[ent[0]] = False
                return True
            if ent[2]:
                self.solver.pop()
            self.trail.pop()
        return False

    def model(self):
        self.check()
        return self.solver.model()

    def depth(self):
        return sum(1 for e in self.trail if e[2])

    def explore(self, fn, on_path=None, max_paths=None, max_time=None, path_alarm=None):
        """run fn() once per path class. on_path(result, status) with status in ok|gap|vacuous|timeout"""
        t0 = time.time()
        self.exhaustive = False
        while True:
            self.paths += 1
            status, res = "ok", None
            if path_alarm:
                signal.setitimer(signal.ITIMER_REAL, path_alarm)
            probe = self.paths in (1, 7, 31)      # a few paths per chunk record which /repo functions were entered
            if probe:
                import sys as _sys

                def _prof(frame, event, arg, _seen=self.functions_seen):
                    if event == "call":
                        fn_ = frame.f_code.co_filename
                        if "/norminette/" in fn_:
                            _seen.add(fn_.split("/norminette/")[-1][:-3].replace("/", ".") + "." + getattr(frame.f_code, "co_qualname", frame.f_code.co_name))
                _sys.setprofile(_prof)
            try:
                res = fn()
            except Infeasible:
                status = "vacuous"
                self.vacuous += 1
            except EngineGap as e:
                status, res = "gap", e
                self.gaps += 1
            except PathTimeout as e:
                status, res = "timeout", e
            finally:
                if probe:
                    _sys.setprofile(None)
                if path_alarm:
                    signal.setitimer(signal.ITIMER_REAL, 0)
            if on_path:
                on_path(res, status)
            if max_paths and self.paths >= max_paths:
                break
            if max_time and time.time() - t0 > max_time:
                break
            if not self.backtrack():
                self.exhaustive = True
                break
        return time.time() - t0

    def frontier(self):
        """number of recorded free decisions whose other side has not been explored"""
        return sum(1 for e in self.trail if e[2] and not e[3])

    def stats(self):
        return dict(paths=self.paths, forks=self.forks, queries=self.checks, sat=self.n_sat, unsat=self.n_unsat,
                    unknown=self.n_unknown, solver_time_s=round(self.solver_time, 3), vacuous=self.vacuous,
                    gaps=self.gaps, exhaustive=self.exhaustive, frontier_left=self.frontier(),
                    functions=sorted(self.functions_seen))


def _alarm(*_a):
    raise PathTimeout()


def install_alarm():
    signal.signal(signal.SIGALRM, _alarm)


RUN = None
ROPE_MODE = False    # state-injection harnesses: str * SymInt builds an opaque block of symbolic length
SEARCH_HOOK = None   # optional override for regex.search on symbolic strings (C13)


def set_run(ex):
    global RUN
    RUN = ex
    _derived_added.clear()


def _b(key):
    return RUN.branch(key)


def declare(var):
    """assert the variable's domain in the current solver (call at harness start, outside any push)"""
    RUN.solver.add(var.domain_constraint())
    return var


def choose(name, n):
    """harness-level solver-chosen alternative 0..n-1 (one fork per alternative)"""
    v = Var(name, range(n))
    RUN.solver.add(v.z >= 0, v.z < n)
    for i in range(n - 1):
        if _b(k_in(v, (i,))):
            return i
    return n - 1


def choose_var(v):
    """fork over the values of an already declared Var"""
    vals = sorted(v.dom)
    for i in vals[:-1]:
        if _b(k_in(v, (i,))):
            return i
    return vals[-1]


# ------------------------------------------------------------------ SymInt
class SymInt:
    __slots__ = ("e",)

    def __init__(self, e):
        self.e = e

    @staticmethod
    def lift(x):
        if isinstance(x, SymInt):
            return x.e
        if isinstance(x, bool):
            return z3.IntVal(int(x))
        if isinstance(x, int):
            return z3.IntVal(x)
        raise EngineGap(f"SymInt.lift {type(x).__name__}")

    @staticmethod
    def mk(e):
        e = z3.simplify(e)
        return e.as_long() if z3.is_int_value(e) else SymInt(e)

    def __add__(s, o):
        return SymInt.mk(s.e + SymInt.lift(o))
    __radd__ = __add__

    def __sub__(s, o):
        return SymInt.mk(s.e - SymInt.lift(o))

    def __rsub__(s, o):
        return SymInt.mk(SymInt.lift(o) - s.e)

    def __mul__(s, o):
        if ROPE_MODE and isinstance(o, str) and len(o) == 1:
            return Rope([Blk(s.e, excl="\n" if o != "\n" else "")])
        if isinstance(o, (str, SymStr, list, tuple)):
            return o * s.concretize()
        return SymInt.mk(s.e * SymInt.lift(o))
    __rmul__ = __mul__

    def __mod__(s, o):
        if not isinstance(o, int) or o <= 0:
            raise EngineGap("SymInt % non-positive-constant")
        return SymInt.mk(s.e % o)

    def __floordiv__(s, o):
        if not isinstance(o, int) or o <= 0:
            raise EngineGap("SymInt // non-positive-constant")
        return SymInt.mk(s.e / o)

    def __truediv__(s, o):
        raise EngineGap("SymInt true division (float)")
    __rtruediv__ = __truediv__

    def __neg__(s):
        return SymInt.mk(-s.e)

    def __pos__(s):
        return s

    def __eq__(s, o):
        if not isinstance(o, (int, SymInt)):
            return False
        return _b(k_z3(s.e == SymInt.lift(o)))

    def __ne__(s, o):
        return not s.__eq__(o)

    def __lt__(s, o):
        return _b(k_z3(s.e < SymInt.lift(o)))

    def __le__(s, o):
        return _b(k_z3(s.e <= SymInt.lift(o)))

    def __gt__(s, o):
        return _b(k_z3(s.e > SymInt.lift(o)))

    def __ge__(s, o):
        return _b(k_z3(s.e >= SymInt.lift(o)))

    def __bool__(s):
        return _b(k_z3(s.e != 0))

    def concretize(s, limit=64):
        for _ in range(limit):
            v = RUN.model().eval(s.e, model_completion=True).as_long()
            if _b(k_z3(s.e == v)):
                return v
        raise EngineGap("concretize: too many values")

    def __hash__(s):
        return hash(s.concretize())

    def __index__(s):
        return s.concretize()
    __int__ = __index__

    def __format__(s, spec):
        return format(s.concretize(), spec)

    def __repr__(s):
        return f"SymInt({s.e})"


def z(x):
    """z3 term of an int or SymInt"""
    return SymInt.lift(x)


# ------------------------------------------------------------------ SymStr
def _one(x):
    return x if type(x) is str else SymStr([x])


_singles = {}


def _single(code):
    r = _singles.get(code)
    if r is None:
        r = _singles[code] = frozenset((code,))
    return r


_kin_cache = {}


def k_in_str(var, chars):
    """k_in(var, codes of chars) with a cache per (variable, character string)"""
    key = (var, chars)
    r = _kin_cache.get(key)
    if r is None:
        r = _kin_cache[key] = (k_in(var, map(ord, chars)),)
    return r[0]


class SymStr:
    """string of concrete length; items: 1-char str | Var"""
    __slots__ = ("it", "_txt", "_cum")

    def __init__(self, items):
        self.it = list(items)
        self._txt = None

    def _accel(self):
        """for long strings: concrete text with NUL placeholders + cumulative count of symbolic items,
        so that a slice inside a concrete stretch is a plain str slice"""
        txt, cum, n = [], [0], 0
        for x in self.it:
            if type(x) is str:
                txt.append(x)
            else:
                txt.append("\0")
                n += 1
            cum.append(n)
        self._txt = "".join(txt)
        self._cum = cum

    @staticmethod
    def mk(items):
        items = list(items)
        for x in items:
            if type(x) is not str:
                return SymStr(items)
        return "".join(items)

    @staticmethod
    def items(x):
        if isinstance(x, SymStr):
            return x.it
        if isinstance(x, str):
            return list(x)
        raise EngineGap(f"SymStr.items {type(x).__name__}")

    def __len__(s):
        return len(s.it)

    def __bool__(s):
        return len(s.it) > 0

    def __iter__(s):
        for x in s.it:
            yield _one(x)

    def __getitem__(s, k):
        if type(k) is slice:
            a, b = k.start, k.stop
            if k.step is None and (a is None or type(a) is int) and (b is None or type(b) is int) and len(s.it) > 24:
                if s._txt is None:
                    s._accel()
                n = len(s.it)
                a = 0 if a is None else (max(0, n + a) if a < 0 else min(a, n))
                b = n if b is None else (max(0, n + b) if b < 0 else min(b, n))
                if b <= a:
                    return ""
                if s._cum[b] == s._cum[a]:
                    return s._txt[a:b]
                if b == n and b - a > 48 and type(s) is SymStr:
                    return TailView(s, a)
                return SymStr(s.it[a:b])
            if any(isinstance(b, SymInt) for b in (k.start, k.stop, k.step)):
                k = slice(*[(b.concretize() if isinstance(b, SymInt) else b) for b in (k.start, k.stop, k.step)])
            return SymStr.mk(s.it[k])
        if isinstance(k, SymInt):
            k = k.concretize()
        return _one(s.it[k])

    def __add__(s, o):
        if isinstance(o, Rope):
            return NotImplemented
        return SymStr.mk(s.it + SymStr.items(o))

    def __radd__(s, o):
        return SymStr.mk(SymStr.items(o) + s.it)

    def __mul__(s, n):
        if isinstance(n, SymInt):
            n = n.concretize()
        return SymStr.mk(s.it * n)
    __rmul__ = __mul__

    def eq_key(s, o):
        oi = SymStr.items(o)
        if len(oi) != len(s.it):
            return False
        ks = []
        for a, b in zip(s.it, oi):
            ta, tb = type(a) is str, type(b) is str
            if ta and tb:
                if a != b:
                    return False
            elif ta:
                ca = ord(a)
                if ca not in b.dom:
                    return False
                if len(b.dom) > 1:
                    ks.append(("in", b, _single(ca)))
            elif tb:
                cb = ord(b)
                if cb not in a.dom:
                    return False
                if len(a.dom) > 1:
                    ks.append(("in", a, _single(cb)))
            elif a is not b:
                ks.append(("eqv", a, b) if id(a) < id(b) else ("eqv", b, a))
        return k_and(ks)

    def __eq__(s, o):
        if not isinstance(o, (str, SymStr)):
            return False
        return _b(s.eq_key(o))

    def __ne__(s, o):
        return not s.__eq__(o)

    def __hash__(s):
        return hash(s.unique())

    def __lt__(s, o):
        return s.unique() < (o.unique() if isinstance(o, SymStr) else o)

    def __gt__(s, o):
        return s.unique() > (o.unique() if isinstance(o, SymStr) else o)

    def startswith(s, p, start=0):
        if isinstance(p, tuple):
            return any(s.startswith(q, start) for q in p)
        t = s[start:] if start else s
        return len(p) <= len(t) and (len(p) == 0 or t[:len(p)] == p)

    def endswith(s, p):
        if isinstance(p, tuple):
            return any(s.endswith(q) for q in p)
        return len(p) <= len(s) and (len(p) == 0 or s[len(s) - len(p):] == p)

    def contains_key(s, sub):
        n = len(sub)
        if n == 0:
            return True
        ks = []
        for i in range(len(s.it) - n + 1):
            seg = SymStr(s.it[i:i + n])
            ks.append(seg.eq_key(sub))
        return k_or(ks)

    def __contains__(s, sub):
        return _b(s.contains_key(sub))

    def count(s, sub):
        if len(sub) != 1:
            raise EngineGap("count(multi-char)")
        return sum(1 for c in s if c == sub)

    def _strip(s, chars, left, right):
        if chars is None:
            chars = " \t\n\r\x0b\x0c"
        a, b = 0, len(s.it)
        if left:
            while a < b and contains(chars, _one(s.it[a])):
                a += 1
        if right:
            while b > a and contains(chars, _one(s.it[b - 1])):
                b -= 1
        return SymStr.mk(s.it[a:b])

    def strip(s, chars=None):
        return s._strip(chars, True, True)

    def lstrip(s, chars=None):
        return s._strip(chars, True, False)

    def rstrip(s, chars=None):
        return s._strip(chars, False, True)

    def _map(s, kind):
        out = []
        for x in s.it:
            if type(x) is str:
                out.append(x.upper() if kind == "upper" else x.lower())
            else:
                out.append(derived(x, kind))
        return SymStr.mk(out)

    def upper(s):
        return s._map("upper")

    def lower(s):
        return s._map("lower")

    def isupper(s):
        has_up = False
        for x in s:
            if contains("abcdefghijklmnopqrstuvwxyz", x):
                return False
            if not has_up and contains("ABCDEFGHIJKLMNOPQRSTUVWXYZ", x):
                has_up = True
        return has_up

    def islower(s):
        has = False
        for x in s:
            if contains("ABCDEFGHIJKLMNOPQRSTUVWXYZ", x):
                return False
            if not has and contains("abcdefghijklmnopqrstuvwxyz", x):
                has = True
        return has

    def isdigit(s):
        return len(s) > 0 and all(contains("0123456789", x) for x in s)

    def isalpha(s):
        return len(s) > 0 and all(contains("abcdefghijklmnopqrstuvwxyzABCDEFGHIJKLMNOPQRSTUVWXYZ", x) for x in s)

    def isalnum(s):
        return len(s) > 0 and all(
            contains("0123456789abcdefghijklmnopqrstuvwxyzABCDEFGHIJKLMNOPQRSTUVWXYZ", x) for x in s)

    def isspace(s):
        return len(s) > 0 and all(contains(" \t\n\r\x0b\x0c", x) for x in s)

    def split(s, sep=None, maxsplit=-1):
        if sep is None and maxsplit == -1:
            # runs of whitespace separate the words; no empty words
            parts, cur = [], []
            for x in s.it:
                if contains(" \t\n\r\x0b\x0c", _one(x)):
                    if cur:
                        parts.append(SymStr.mk(cur))
                        cur = []
                else:
                    cur.append(x)
            if cur:
                parts.append(SymStr.mk(cur))
            return parts
        if sep is None or maxsplit != -1 or len(sep) != 1:
            raise EngineGap("split form")
        parts, cur = [], []
        for x in s.it:
            if _one(x) == sep:
                parts.append(SymStr.mk(cur))
                cur = []
            else:
                cur.append(x)
        parts.append(SymStr.mk(cur))
        return parts

    def expandtabs(s, tabsize=8):
        """str.expandtabs: the column restarts after a newline / carriage return (every test forks as usual)"""
        out, colm = [], 0
        for x in s.it:
            c = _one(x)
            if c == "\t":
                if tabsize > 0:
                    n = tabsize - colm % tabsize
                    out += [" "] * n
                    colm += n
            elif contains("\n\r", c):
                out.append(x)
                colm = 0
            else:
                out.append(x)
                colm += 1
        return SymStr.mk(out)

    def splitlines(s, keepends=False):
        if keepends:
            raise EngineGap("splitlines(keepends)")
        parts = s.split("\n")
        if parts and len(parts[-1]) == 0:
            parts.pop()
        return parts

    def replace(s, a, b):
        if len(a) != 1:
            raise EngineGap("replace form")
        out = []
        for x in s.it:
            if _one(x) == a:
                out += SymStr.items(b)
            else:
                out.append(x)
        return SymStr.mk(out)

    def find(s, sub, start=0, end=None):
        n = len(sub)
        ln = len(s) if end is None else (max(0, len(s) + end) if end < 0 else min(end, len(s)))
        start = max(0, len(s) + start) if start < 0 else start
        for i in range(start, ln - n + 1):
            if s[i:i + n] == sub:
                return i
        return -1

    def rfind(s, sub, start=0, end=None):
        n = len(sub)
        ln = len(s) if end is None else (max(0, len(s) + end) if end < 0 else min(end, len(s)))
        start = max(0, len(s) + start) if start < 0 else start
        for i in range(ln - n, start - 1, -1):
            if s[i:i + n] == sub:
                return i
        return -1

    def index(s, sub):
        i = s.find(sub)
        if i < 0:
            raise ValueError("substring not found")
        return i

    def __format__(s, spec):
        return format(s.unique(), spec)

    def __str__(s):
        return s.unique()

    def unique(s):
        """the concrete value if the path condition determines it; otherwise an EngineGap"""
        v = s.concretize()
        k = s.eq_key(v)
        if k is True:
            return v
        if RUN.known.get(k) is True:
            return v
        if RUN.feasible(z3.Not(key_expr(k))):
            raise EngineGap("concretising a non-unique symbolic string")
        return v

    def __repr__(s):
        return "SymStr(%s)" % ",".join(x if type(x) is str else x.name for x in s.it)

    def concretize(s, m=None):
        m = m or RUN.model()
        return "".join(x if type(x) is str else chr(m.eval(x.z, model_completion=True).as_long()) for x in s.it)


class TailView(SymStr):
    """lazy view base[off:] of a long SymStr (the lexer hands source[pos:] to its regexes at every token;
    copying the tail each time is quadratic).  The regex matcher reads base/off directly; any other
    operation materialises the slice on first use of `.it`."""
    __slots__ = ("base", "off", "_mat")

    def __init__(self, base, off):
        self.base, self.off, self._mat = base, off, None
        self._txt = None

    @property
    def it(self):
        m = self._mat
        if m is None:
            m = self._mat = self.base.it[self.off:]
        return m

    def __len__(s):
        return len(s.base.it) - s.off


_derived = {}
_derived_added = set()


def derived(v, kind):
    key = (v, kind)
    w = _derived.get(key)
    if w is None:
        if kind == "upper":
            def f(c):
                return ord(chr(c).upper()) if c < 128 else c
        else:
            def f(c):
                return ord(chr(c).lower()) if c < 128 else c
        w = Var(f"{v.name}_{kind}", {f(c) for c in v.dom})
        if kind == "upper":
            w.defn = w.z == z3.If(z3.And(v.z >= 97, v.z <= 122), v.z - 32, v.z)
        else:
            w.defn = w.z == z3.If(z3.And(v.z >= 65, v.z <= 90), v.z + 32, v.z)
        _derived[key] = w
    # definitional constraint: sound to (re-)add at any push level
    RUN.solver.add(w.defn)
    return w


def rt_getattr(obj, name, *default):
    if isinstance(name, SymStr):
        # symbolic attribute name (e.g. getattr(self, f"check_{directive}", None)): one fork per existing
        # attribute of that length, then the default / AttributeError
        for a in sorted(a for a in dir(obj) if len(a) == len(name)):
            if name == a:
                return getattr(obj, a)
        if default:
            return default[0]
        raise AttributeError(name.concretize())
    return getattr(obj, name, *default)


def concrete_if_unique(x):
    return x.unique() if isinstance(x, SymStr) else x


# ------------------------------------------------------------------ Rope (symbolic-length strings)
class Blk:
    """opaque run of characters: symbolic length n (z3 Int >= 0); contents exclude the chars in `excl`"""
    __slots__ = ("n", "excl")

    def __init__(self, n, excl="\n"):
        self.n, self.excl = n, excl

    def __repr__(self):
        return f"Blk({self.n})"


class Rope:
    __slots__ = ("parts",)

    def __init__(self, parts):
        out = []
        for p in parts:
            if isinstance(p, Rope):
                ps = p.parts
            else:
                ps = [p]
            for q in ps:
                if isinstance(q, str):
                    if q:
                        if out and isinstance(out[-1], str):
                            out[-1] += q
                        else:
                            out.append(q)
                elif isinstance(q, Blk):
                    out.append(q)
                else:
                    raise EngineGap(f"Rope part {type(q).__name__}")
        self.parts = out

    def __add__(s, o):
        return Rope(s.parts + [o])

    def __radd__(s, o):
        return Rope([o] + s.parts)

    def split(s, sep):
        res, cur = [], []
        for p in s.parts:
            if isinstance(p, str):
                bits = p.split(sep)
                cur.append(bits[0])
                for b in bits[1:]:
                    res.append(Rope(cur))
                    cur = [b]
            else:
                if sep in p.excl:
                    cur.append(p)
                else:
                    raise EngineGap("split inside opaque block")
        res.append(Rope(cur))
        return res

    def sym_len(s):
        tot = 0
        for p in s.parts:
            tot = tot + (len(p) if isinstance(p, str) else SymInt(p.n))
        return tot

    def startswith(s, pre):
        first = s.parts[0] if s.parts else ""
        if isinstance(first, str) and len(first) >= len(pre):
            return first.startswith(pre)
        raise EngineGap("startswith into opaque block")

    def endswith(s, suf):
        last = s.parts[-1] if s.parts else ""
        if isinstance(last, str) and len(last) >= len(suf):
            return last.endswith(suf)
        raise EngineGap("endswith into opaque block")

    def __bool__(s):
        return bool(s.sym_len() > 0) if s.parts else False

    def __eq__(s, o):
        raise EngineGap("rope content compared")

    def __hash__(s):
        raise EngineGap("rope hashed")

    def __iter__(s):
        raise EngineGap("rope content iterated")

    def __contains__(s, x):
        raise EngineGap("rope content searched")

    def __getitem__(s, k):
        raise EngineGap("rope content indexed")

    def __repr__(s):
        return "Rope(%r)" % (s.parts,)


# ------------------------------------------------------------------ runtime entry points used by rewritten code
def rt_len(x):
    if isinstance(x, Rope):
        return x.sym_len()
    return len(x)


def rt_range(*args):
    if any(isinstance(a, SymInt) for a in args):
        args = [a.concretize() if isinstance(a, SymInt) else a for a in args]
    return range(*args)


def rt_enumerate(it, start=0):
    i = start
    for x in it:
        yield i, x
        i = i + 1


def is_sym(x):
    return isinstance(x, (SymStr, SymInt, Rope))


def contains(container, item):
    ti = type(item)
    tc = type(container)
    if ti is TailView:
        ti = SymStr
    if tc is TailView:
        tc = SymStr
    if ti is not SymStr and ti is not SymInt and ti is not Rope:
        if tc is dict and _SYMKEYED and id(container) in _SYMKEYED and ti is str:
            return (item in container) or _dict_find(container, item) is not None
        if tc is set and _SYMKEYED and id(container) in _SYMKEYED and ti is str:
            return (item in container) or any(isinstance(k, SymKey) and len(k.s) == len(item) and k.s == item for k in list(container))
        if tc is str or tc is dict or tc is set or tc is frozenset:
            return item in container
        if tc is list or tc is tuple:
            if SymStr not in map(type, container) and SymInt not in map(type, container):
                return item in container
        elif tc is SymStr:
            return container.__contains__(item)
    if ti is Rope or tc is Rope:
        raise EngineGap("membership on rope")
    if tc is str:
        if ti is SymStr:
            n = len(item)
            if n == 0:
                return True
            if n == 1:
                x = item.it[0]
                return (x in container) if type(x) is str else _b(k_in_str(x, container))
            return _b(k_or([item.eq_key(container[i:i + n]) for i in range(len(container) - n + 1)]))
        raise EngineGap(f"contains(str, {ti.__name__})")
    if tc is SymStr:
        return container.__contains__(item)
    if isinstance(container, dict):
        container = [(k.s if isinstance(k, SymKey) else k) for k in container.keys()]
    if isinstance(container, (set, frozenset)):
        container = [(k.s if isinstance(k, SymKey) else k) for k in sorted(container, key=repr)]
    if isinstance(container, (list, tuple)):
        if ti is SymStr:
            return _b(k_or([item.eq_key(x) for x in container if isinstance(x, (str, SymStr))]))
        if ti is str:
            return _b(k_or([(x.eq_key(item) if isinstance(x, SymStr) else x == item) for x in container
                            if isinstance(x, (str, SymStr))]))
        for x in container:
            if x == item:
                return True
        return False
    return item in container


def getitem(obj, key):
    tk = type(key)
    if tk is int:
        return obj[key]
    if tk is str:
        if _SYMKEYED and isinstance(obj, dict) and id(obj) in _SYMKEYED and key not in obj:
            k = _dict_find(obj, key)
            if k is not None:
                return obj[k]
        return obj[key]
    if tk is TailView:
        tk = SymStr
    if tk is SymStr and isinstance(obj, dict):
        k = _dict_find(obj, key)
        if k is not None:
            return obj[k]
        raise KeyError(key.concretize())
    if tk is SymInt and not isinstance(obj, SymStr):
        key = key.concretize()
    return obj[key]


class SymKey:
    """dictionary key standing for a symbolic string whose value the path condition does not determine (a cache keyed
    by input text, a memo table).  Hash by length, equality by (forking) string comparison; the rewritten dict
    accessors (getitem / contains / rt_get / setitem) look through it."""
    __slots__ = ("s",)

    def __init__(self, s):
        self.s = s

    def __hash__(self):
        return hash(("symkey", len(self.s)))

    def __eq__(self, o):
        if isinstance(o, SymKey):
            return self.s == o.s
        if isinstance(o, (str, SymStr)):
            return self.s == o
        return False

    def __repr__(self):
        return f"SymKey({self.s!r})"


_SYMKEYED = set()      # ids of the dicts that hold SymKeys


def _dict_find(obj, key):
    """the stored key of dict `obj` that equals the (symbolic or concrete) string `key`, else None"""
    n = len(key)
    for k in list(obj.keys()):
        if isinstance(k, SymKey):
            if len(k.s) == n and k.s == key:
                return k
        elif isinstance(k, str) and isinstance(key, SymStr):
            if len(k) == n and key == k:
                return k
    return None


def setitem(obj, key, val):
    """obj[key] = val; a dict stored into under a symbolic string keeps it as a SymKey"""
    tk = type(key)
    if tk is TailView:
        tk = SymStr
    if tk is SymStr and isinstance(obj, dict):
        try:
            obj[key.unique()] = val
            return
        except EngineGap:
            pass
        k = _dict_find(obj, key)
        if k is None:
            k = SymKey(key)
            _SYMKEYED.add(id(obj))
        obj[k] = val
        return
    if tk is str and isinstance(obj, dict) and id(obj) in _SYMKEYED:
        k = _dict_find(obj, key)
        if k is not None:
            obj[k] = val
            return
    if tk is SymInt and isinstance(obj, list):
        key = key.concretize()
    obj[key] = val


class SymSet(list):
    """set(...) of values some of which are symbolic strings: membership is decided by (forking) equality, which is what
    the rewritten `in` does for lists; elements are kept distinct up to that equality"""

    def add(self, x):
        if not contains(self, x):
            self.append(x)

    def discard(self, x):
        for i, y in enumerate(self):
            if y == x:
                del self[i]
                return

    def update(self, xs):
        for x in xs:
            self.add(x)


def rt_set(*args):
    if not args:
        return set()
    items = list(args[0])
    if not any(isinstance(x, (SymStr, SymInt)) for x in items):
        return set(items)
    out = SymSet()
    for x in items:
        out.add(x)
    return out


class FunctoolsShim:
    """stands in for `functools` inside rewritten modules: lru_cache / cache memoise by (forking) equality of the arguments, so
    that symbolic strings can be cache keys; everything else is the real module"""

    def __getattr__(self, name):
        import functools
        return getattr(functools, name)

    @staticmethod
    def _memo(fn):
        import functools
        table = []

        @functools.wraps(fn)
        def wrapper(*args, **kw):
            key = args + tuple(sorted(kw.items()))
            for k, v in table:
                if len(k) == len(key) and all((a is b) or (a == b) for a, b in zip(k, key)):
                    return v
            v = fn(*args, **kw)
            table.append((key, v))
            return v
        wrapper.cache_clear = table.clear
        wrapper._symx_table = table
        return wrapper

    def lru_cache(self, maxsize=128, typed=False):
        if callable(maxsize):
            return self._memo(maxsize)
        return self._memo

    def cache(self, fn):
        return self._memo(fn)


def rt_str(*args):
    """str(x): an object whose __str__ builds its text from symbolic parts returns a SymStr"""
    if len(args) != 1:
        return str(*args)
    x = args[0]
    if isinstance(x, (str, SymStr)):
        return x
    if isinstance(x, SymInt):
        return str(x.concretize())
    try:
        return str(x)
    except TypeError:
        r = type(x).__str__(x)
        if isinstance(r, (str, SymStr)):
            return r
        raise


def rt_add(obj, x):
    """obj.add(x): a real set receiving a symbolic string keeps it as a SymKey (unless the path determines its value)"""
    if isinstance(obj, (set,)) and isinstance(x, SymStr):
        try:
            obj.add(x.unique())
            return None
        except EngineGap:
            pass
        if not contains(obj, x):
            obj.add(SymKey(x))
            _SYMKEYED.add(id(obj))
        return None
    return obj.add(x)


def rt_get(obj, key, *default):
    """obj.get(key[, default]); a dict looked up with a symbolic string compares against the keys of that length"""
    tk = type(key)
    if tk is TailView:
        tk = SymStr
    if tk is SymStr and isinstance(obj, dict):
        k = _dict_find(obj, key)
        if k is not None:
            return obj[k]
        return default[0] if default else None
    if tk is str and isinstance(obj, dict) and id(obj) in _SYMKEYED and key not in obj:
        k = _dict_find(obj, key)
        if k is not None:
            return obj[k]
    if tk is SymInt and isinstance(obj, dict):
        key = key.concretize()
    return obj.get(key, *default)


def join(sep, parts):
    if type(parts) is str and type(sep) is str:
        return sep.join(parts)
    parts = list(parts)
    if type(sep) is str and all(type(p) is str for p in parts):
        return sep.join(parts)
    if any(isinstance(p, Rope) for p in parts):
        out = []
        for i, p in enumerate(parts):
            if i:
                out.append(sep)
            out.append(p)
        return Rope(out)
    out = []
    for i, p in enumerate(parts):
        if i:
            out += SymStr.items(sep)
        out += SymStr.items(p)
    return SymStr.mk(out)


def fstr(*parts):
    out = []
    for p in parts:
        if isinstance(p, (str, SymStr)):
            out += SymStr.items(p)
        elif isinstance(p, (SymInt, Rope)):
            out += list("<sym>")     # only ever used in messages (debug prints, BAD_LEXEME text)
        else:
            try:
                out += list(format(p))
            except TypeError:
                r = p.__str__()          # e.g. Token.__str__ returns a SymStr when its value is symbolic
                if not isinstance(r, (str, SymStr)):
                    raise
                out += SymStr.items(r)
    return SymStr.mk(out)


def fval(value, conv, spec):
    """one replacement field {value!conv:spec} of an f-string whose value may be a proxy"""
    if conv == 114:
        value = repr(value)
    elif conv == 115:
        value = value if isinstance(value, (str, SymStr)) else str(value)
    elif conv == 97:
        value = ascii(value)
    if isinstance(spec, SymStr):
        spec = spec.unique()
    if isinstance(value, SymStr):
        if spec == "":
            return value
        import re as _re
        m = _re.fullmatch(r"([<>^]?)(\d+)", spec)
        if m:
            pad = int(m.group(2)) - len(value)
            if pad <= 0:
                return value
            if m.group(1) == ">":
                return " " * pad + value
            if m.group(1) == "^":
                return " " * (pad // 2) + value + " " * (pad - pad // 2)
            return value + " " * pad
        return format(value.unique(), spec)
    if isinstance(value, Rope):
        return "<sym>"
    return format(value, spec)       # SymInt.__format__ concretises (bounded fork), as a native f-string would


def fstr_spec(value, spec):
    """f"{value:spec}" with a possibly symbolic value"""
    if isinstance(value, (SymStr, SymInt)):
        return format(value, spec)
    return format(value, spec)


def rt_print(*args, **kw):
    """print() that tolerates proxies (debug output is not the subject of any harness)"""
    try:
        print(*[(repr(a) if is_sym(a) else a) for a in args], **kw)
    except EngineGap:
        pass


def rt_isinstance(obj, cls):
    if cls is str and isinstance(obj, SymStr):
        return True
    if cls is int and type(obj) is SymInt:
        return True
    if isinstance(cls, tuple):
        if str in cls and isinstance(obj, SymStr):
            return True
        if int in cls and type(obj) is SymInt:
            return True
    return isinstance(obj, cls)


def rt_floor(x):
    import math
    return math.floor(x)


def rt_splitext(p):
    """os.path.splitext (posix genericpath._splitext) on a possibly symbolic path"""
    import os
    if not isinstance(p, SymStr):
        return os.path.splitext(p)          # str, bytes, os.PathLike: the real function
    sep = p.rfind("/")
    dot = p.rfind(".")
    if dot > sep:
        i = sep + 1
        while i < dot:
            if p[i] != ".":
                return p[:dot], p[dot:]
            i += 1
    return p, ""


def rt_basename(p):
    import os
    if not isinstance(p, SymStr):
        return os.path.basename(p)          # str, bytes, os.PathLike: the real function
    i = p.rfind("/") + 1
    return p[i:]
