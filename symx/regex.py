"""Priority-ordered backtracking regex matcher over SymStr items (DESIGN.md 2.4).

The pattern string is parsed with CPython's own re._parser, so the real patterns of the working
tree are re-read on every run.  Every "character in class" test on a symbolic character is a
solver-decided comparison (eager booleans), so the matcher is a deterministic program per path.
"""
import re as _re
from . import core
from .core import EngineGap, SymStr, TailView, k_in, _b

_P = _re._parser
_C = _re._constants
_CAT = {
    _C.CATEGORY_DIGIT: frozenset(range(48, 58)),
    _C.CATEGORY_NOT_DIGIT: frozenset(range(128)) - frozenset(range(48, 58)),
    _C.CATEGORY_WORD: frozenset(list(range(48, 58)) + list(range(65, 91)) + list(range(97, 123)) + [95]),
    _C.CATEGORY_SPACE: frozenset(list(range(9, 14)) + list(range(28, 33))),
}
_CAT[_C.CATEGORY_NOT_WORD] = frozenset(range(128)) - _CAT[_C.CATEGORY_WORD]
_CAT[_C.CATEGORY_NOT_SPACE] = frozenset(range(128)) - _CAT[_C.CATEGORY_SPACE]
_class_cache = {}


def _class_set(items):
    key = id(items)
    r = _class_cache.get(key)
    if r is not None:
        return r[1]
    neg = False
    s = set()
    for op, av in items:
        if op == _C.NEGATE:
            neg = True
        elif op == _C.LITERAL:
            s.add(av)
        elif op == _C.RANGE:
            s.update(range(av[0], av[1] + 1))
        elif op == _C.CATEGORY:
            s |= _CAT[av]
        else:
            raise EngineGap(f"regex class item {op}")
    if neg:
        s = set(range(0, 128)) - s
    _class_cache[key] = (items, frozenset(s))
    return _class_cache[key][1]


def _ch_in(c, codes):
    if type(c) is str:
        return ord(c) in codes
    return _b(k_in(c, codes))


class SymMatch:
    """positions are stored absolute in `base`; the API reports them relative to the matched string"""

    def __init__(self, base, off, g, names, end):
        self.base, self.off, self.g, self.names, self._end = base, off, g, names, end

    def _k(self, k):
        return self.names[k] if isinstance(k, str) else k

    def end(self, k=0):
        k = self._k(k)
        if k and self.g.get(k) is None:
            return -1
        return (self.g[k][1] if k else self._end) - self.off

    def start(self, k=0):
        k = self._k(k)
        if self.g.get(k) is None:
            return -1
        return self.g[k][0] - self.off

    def span(self, k=0):
        return (self.start(k), self.end(k))

    def group(self, *ks):
        if not ks:
            return self[0]
        if len(ks) == 1:
            return self[ks[0]]
        return tuple(self[k] for k in ks)

    def groups(self, default=None):
        n = max([0] + [k for k in self.g if isinstance(k, int)] + list(self.names.values()))
        return tuple((self[k] if self.g.get(k) is not None else default) for k in range(1, n + 1))

    def groupdict(self, default=None):
        return {name: (self[k] if self.g.get(k) is not None else default) for name, k in self.names.items()}

    def __getitem__(self, k):
        k = self._k(k)
        sp = self.g.get(k)
        return None if sp is None else self.base[sp[0]:sp[1]]


def _width(p):
    w = 0
    for op, av in p:
        if op in (_C.LITERAL, _C.NOT_LITERAL, _C.IN, _C.ANY):
            w += 1
        else:
            raise EngineGap("lookbehind width")
    return w


class SymPattern:
    def __init__(self, pattern, flags=0):
        self.pattern = pattern
        self.real = _re.compile(pattern, flags)
        self.flags = self.real.flags
        self.tree = _P.parse(pattern, flags)
        self.names = dict(self.tree.state.groupdict)
        self.dotall = bool(self.real.flags & _re.DOTALL)

    def _m(self, nodes, ni, it, pos, g):
        if ni == len(nodes):
            yield pos, g
            return
        op, av = nodes[ni]
        if op == _C.LITERAL:
            if pos < len(it) and _ch_in(it[pos], (av,)):
                yield from self._m(nodes, ni + 1, it, pos + 1, g)
        elif op == _C.NOT_LITERAL:
            if pos < len(it) and not _ch_in(it[pos], (av,)):
                yield from self._m(nodes, ni + 1, it, pos + 1, g)
        elif op == _C.ANY:
            if pos < len(it) and (self.dotall or not _ch_in(it[pos], (10,))):
                yield from self._m(nodes, ni + 1, it, pos + 1, g)
        elif op == _C.IN:
            if pos < len(it) and _ch_in(it[pos], _class_set(av)):
                yield from self._m(nodes, ni + 1, it, pos + 1, g)
        elif op == _C.AT:
            if av == _C.AT_BEGINNING or av == _C.AT_BEGINNING_STRING:
                if pos == self._bos:
                    yield from self._m(nodes, ni + 1, it, pos, g)
            elif av == _C.AT_END_STRING:
                if pos == len(it):
                    yield from self._m(nodes, ni + 1, it, pos, g)
            elif av == _C.AT_END:
                if pos == len(it) or (pos == len(it) - 1 and _ch_in(it[pos], (10,))):
                    yield from self._m(nodes, ni + 1, it, pos, g)
            else:
                raise EngineGap(f"regex AT {av}")
        elif op == _C.SUBPATTERN:
            gid, _af, _df, p = av
            for p2, g2 in self._m(list(p), 0, it, pos, g):
                if gid is not None:
                    g2 = dict(g2)
                    g2[gid] = (pos, p2)
                yield from self._m(nodes, ni + 1, it, p2, g2)
        elif op == _C.BRANCH:
            for alt in av[1]:
                for p2, g2 in self._m(list(alt), 0, it, pos, g):
                    yield from self._m(nodes, ni + 1, it, p2, g2)
        elif op in (_C.MAX_REPEAT, _C.MIN_REPEAT):
            lo, hi, p = av
            p = list(p)
            greedy = op == _C.MAX_REPEAT

            def rep(count, pos_, g_):
                if not greedy and count >= lo:
                    yield pos_, g_
                if hi is _C.MAXREPEAT or count < hi:
                    for p2, g2 in self._m(p, 0, it, pos_, g_):
                        if p2 == pos_ and count >= lo:
                            continue
                        yield from rep(count + 1, p2, g2)
                if greedy and count >= lo:
                    yield pos_, g_
            for p2, g2 in rep(0, pos, g):
                yield from self._m(nodes, ni + 1, it, p2, g2)
        elif op in (_C.ASSERT, _C.ASSERT_NOT):
            direction, p = av
            p = list(p)
            ok = False
            if direction < 0:
                w = _width(p)
                if pos - w >= self._bos:
                    for p2, _ in self._m(p, 0, it, pos - w, g):
                        if p2 == pos:
                            ok = True
                            break
            else:
                for _ in self._m(p, 0, it, pos, g):
                    ok = True
                    break
            if ok == (op == _C.ASSERT):
                yield from self._m(nodes, ni + 1, it, pos, g)
        else:
            raise EngineGap(f"regex op {op}")

    def _match_at(self, base, bos, start):
        self._bos = bos
        for p2, g in self._m(list(self.tree), 0, base.it, start, {}):
            g = dict(g)
            g[0] = (start, p2)
            return SymMatch(base, bos, g, self.names, p2)
        return None

    @staticmethod
    def _view(s):
        if type(s) is TailView:
            return s.base, s.off
        return s, 0

    @staticmethod
    def _clip(s, endpos):
        """the subject as if it were endpos characters long (Pattern.match/search endpos argument)"""
        if endpos is None or endpos >= len(s):
            return s
        return s[:max(0, endpos)]

    def match(self, s, pos=0, endpos=None):
        if isinstance(s, str):
            return self.real.match(s, pos) if endpos is None else self.real.match(s, pos, endpos)
        if not isinstance(s, SymStr):
            raise EngineGap(f"regex on {type(s).__name__}")
        s = self._clip(s, endpos)
        if isinstance(s, str):
            return self.real.match(s, pos)
        base, off = self._view(s)
        if pos > len(s):
            return None
        return self._match_at(base, off, off + max(0, pos))

    def search(self, s, pos=0, endpos=None):
        if isinstance(s, str):
            return self.real.search(s, pos) if endpos is None else self.real.search(s, pos, endpos)
        if not isinstance(s, SymStr):
            raise EngineGap(f"regex on {type(s).__name__}")
        hook = core.SEARCH_HOOK
        if hook is not None and not pos and endpos is None:
            return hook(self, s)
        s = self._clip(s, endpos)
        if isinstance(s, str):
            return self.real.search(s, pos)
        base, off = self._view(s)
        for i in range(off + max(0, pos), len(base.it) + 1):
            m = self._match_at(base, off, i)
            if m is not None:
                return m
        return None

    def sub(self, repl, s, count=0):
        """re.sub on a symbolic string (plain replacement text only)"""
        if isinstance(s, str):
            return self.real.sub(repl, s, count)
        if not isinstance(repl, str) or "\\" in repl:
            raise EngineGap("re.sub with a callable / back-references on a symbolic string")
        base, off = self._view(s)
        out, i, n, done = [], off, len(base.it), 0
        while i <= n:
            m = self._match_at(base, off, i) if (not count or done < count) else None
            if m is not None and m.g[0][1] > i:
                out += list(repl)
                i = m.g[0][1]
                done += 1
            elif m is not None and m.g[0][1] == i:
                out += list(repl)          # empty match: insert and move on by one character
                done += 1
                if i < n:
                    out.append(base.it[i])
                i += 1
            else:
                if i < n:
                    out.append(base.it[i])
                i += 1
        return SymStr.mk(out)

    def fullmatch(self, s):
        if isinstance(s, str):
            return self.real.fullmatch(s)
        base, off = self._view(s)
        self._bos = off
        for p2, g in self._m(list(self.tree), 0, base.it, off, {}):
            if p2 == len(base.it):
                g = dict(g)
                g[0] = (off, p2)
                return SymMatch(base, off, g, self.names, p2)
        return None


class ReShim:
    """stands in for the `re` module inside rewritten norminette modules"""
    VERBOSE, DOTALL, MULTILINE, IGNORECASE = _re.VERBOSE, _re.DOTALL, _re.MULTILINE, _re.IGNORECASE
    X, S, M, I = _re.X, _re.S, _re.M, _re.I
    error = _re.error
    _cache = {}

    def compile(self, pattern, flags=0):
        k = (pattern, int(flags))
        if k not in self._cache:
            self._cache[k] = SymPattern(pattern, flags)
        return self._cache[k]

    def match(self, pattern, s, flags=0):
        return self.compile(pattern, flags).match(s)

    def search(self, pattern, s, flags=0):
        return self.compile(pattern, flags).search(s)

    def fullmatch(self, pattern, s, flags=0):
        return self.compile(pattern, flags).fullmatch(s)

    def sub(self, pattern, repl, s, count=0, flags=0):
        return self.compile(pattern, flags).sub(repl, s, count)

    def __getattr__(self, name):
        return getattr(_re, name)
