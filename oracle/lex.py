"""Independent lexical oracles (DESIGN.md 4.9 / 4.10): written from the C standard's translation
phases and this file's OWN tables (C11 5.2.1.1 trigraphs, 6.4.6 digraphs/punctuators, 6.4.1 keywords),
not imported from norminette/lexer/dictionary.py."""
from symx.poly import ch_in, ch_in_codes, starts

TRI = {"??<": '{', "??>": '}', "??(": '[', "??)": ']', "??=": '#', "??/": '\\', "??'": '^', "??!": '|', "??-": '~'}
DI = {"<%": '{', "%>": '}', "<:": '[', ":>": ']', "%:": '#'}

STARTERS = frozenset(map(ord, "0123456789abcdefghijklmnopqrstuvwxyzABCDEFGHIJKLMNOPQRSTUVWXYZ_'\" \t\n"
                              "+-*/,<>^&|!=%;:.~?#(){}[]"))

# lexeme -> token type name used by the tool (frozen copy; a changed dictionary entry shows as a text mismatch)
KEYWORDS = {
    "auto": "AUTO", "break": "BREAK", "case": "CASE", "char": "CHAR", "const": "CONST", "continue": "CONTINUE",
    "default": "DEFAULT", "do": "DO", "double": "DOUBLE", "else": "ELSE", "enum": "ENUM", "extern": "EXTERN",
    "float": "FLOAT", "for": "FOR", "goto": "GOTO", "if": "IF", "int": "INT", "long": "LONG",
    "register": "REGISTER", "return": "RETURN", "short": "SHORT", "signed": "SIGNED", "sizeof": "SIZEOF",
    "static": "STATIC", "struct": "STRUCT", "switch": "SWITCH", "typedef": "TYPEDEF", "union": "UNION",
    "unsigned": "UNSIGNED", "void": "VOID", "volatile": "VOLATILE", "while": "WHILE", "inline": "INLINE",
    "NULL": "NULL", "restrict": "RESTRICT",
}
PUNCT = {
    ">>=": "RIGHT_ASSIGN", "<<=": "LEFT_ASSIGN", "+=": "ADD_ASSIGN", "-=": "SUB_ASSIGN", "*=": "MUL_ASSIGN",
    "/=": "DIV_ASSIGN", "%=": "MOD_ASSIGN", "&=": "AND_ASSIGN", "^=": "XOR_ASSIGN", "|=": "OR_ASSIGN",
    "<=": "LESS_OR_EQUAL", ">=": "GREATER_OR_EQUAL", "==": "EQUALS", "!=": "NOT_EQUAL", "=": "ASSIGN",
    ";": "SEMI_COLON", ":": "COLON", ",": "COMMA", ".": "DOT", "!": "NOT", "-": "MINUS", "+": "PLUS",
    "*": "MULT", "/": "DIV", "%": "MODULO", "<": "LESS_THAN", ">": "MORE_THAN", "...": "ELLIPSIS",
    "++": "INC", "--": "DEC", "->": "PTR", "&&": "AND", "||": "OR", "^": "BWISE_XOR", "|": "BWISE_OR",
    "~": "BWISE_NOT", "&": "BWISE_AND", ">>": "RIGHT_SHIFT", "<<": "LEFT_SHIFT", "?": "TERN_CONDITION",
    "#": "HASH",
    "{": "LBRACE", "}": "RBRACE", "(": "LPARENTHESIS", ")": "RPARENTHESIS", "[": "LBRACKET", "]": "RBRACKET",
}
WS = {" ": "SPACE", "\t": "TAB", "\n": "NEWLINE"}
LEXEME_OF = {}
for _d in (KEYWORDS, PUNCT, WS):
    for _k, _v in _d.items():
        assert _v not in LEXEME_OF, _v
        LEXEME_OF[_v] = _k
VALUED_TYPES = ("IDENTIFIER", "CONSTANT", "CHAR_CONST", "STRING", "COMMENT", "MULT_COMMENT")


def advance(line, col, raw):
    """true position after the raw characters `raw`, starting at (line, col); tab stops every 4 columns"""
    for c in raw:
        if ch_in(c, "\n"):
            line, col = line + 1, 1
        elif ch_in(c, "\t"):
            col = col + (4 - (col - 1) % 4)
        else:
            col = col + 1
    return line, col


def unit(w, i):
    """phase-1/2 view at raw offset i: (standard character | None for a splice, raw length)"""
    if starts(w, i, "\\\n"):
        return None, 2
    if starts(w, i, "??/\n"):
        return None, 4
    for t, r in TRI.items():
        if starts(w, i, t):
            return r, 3
    for t, r in DI.items():
        if starts(w, i, t):
            return r, 2
    return w[i], 1


def junk(w):
    """skip splices and characters that cannot start a token: (offset of the first token char, bad offsets)"""
    i, bad = 0, []
    while i < len(w):
        c, n = unit(w, i)
        if c is None:
            i += n
            continue
        if type(c) is str:
            ok = ord(c) in STARTERS
        else:
            ok = ch_in_codes(c, STARTERS)
        if ok:
            break
        bad.append(i)
        i += 1      # one raw character per bad lexeme
    return i, bad


def normalise(w, s, k, line, col, block_comment):
    """documented normalisation of raw span w[s:k] starting at true position (line, col):
    splices removed, trigraphs/digraphs replaced, tabs inside a block comment expanded to the tab stop.
    Returns a list of items (1-char strs / symbolic chars) or None if the span ends inside a unit."""
    out = []
    i = s
    while i < k:
        c, n = unit(w, i)
        if i + n > k:
            return None
        if c is not None:
            if block_comment and ch_in(c, "\t"):
                spaces = 4 - (col - 1) % 4
                if not isinstance(spaces, int):
                    spaces = spaces.concretize()
                out += [" "] * spaces
            else:
                out.append(c if type(c) is str else c.it[0])
        line, col = advance(line, col, w[i:i + n])
        i += n
    return out


def text_matches(text, w, s, k, line, col, block_comment):
    """is `text` the raw span w[s:k] in which each splice / trigraph / digraph / block-comment tab is
    EITHER normalised (removed / replaced / expanded) OR kept as written?  (The property allows the
    normalisations, it does not demand them.)  Character comparisons fork eagerly, so the answer is a
    concrete bool per path class."""
    text = list(text) if isinstance(text, str) else [c for c in text]
    memo = {}

    def same(ti, raw):
        if ti + len(raw) > len(text):
            return False
        for j, r in enumerate(raw):
            t = text[ti + j]
            if t is r:
                continue
            if not (t == r):
                return False
        return True

    def go(ti, i, line, col):
        key = (ti, i)
        if key in memo:
            return memo[key]
        if i >= k:
            r = (i == k and ti == len(text))
            memo[key] = r
            return r
        c, n = unit(w, i)
        r = False
        if i + n <= k:
            l2, c2 = advance(line, col, w[i:i + n])
            if c is None:
                r = go(ti, i + n, l2, c2)
            elif block_comment and ch_in(c, "\t"):
                sp = 4 - (col - 1) % 4
                if not isinstance(sp, int):
                    sp = sp.concretize()
                r = same(ti, " " * sp) and go(ti + sp, i + n, l2, c2)
            elif n > 1:
                r = same(ti, [c]) and go(ti + 1, i + n, l2, c2)
        if not r and c is None and n == 4 and i + 3 <= k:
            # "??/" + newline read as the trigraph for a backslash (replaced) followed by a newline of its own -- what the
            # lexer does after an escaping backslash ('\\' spelled '\??/'); nothing is lost or duplicated by that reading
            l3, c3 = advance(line, col, w[i:i + 3])
            r = same(ti, ["\\"]) and go(ti + 1, i + 3, l3, c3)
        if not r:
            # keep the first raw character as written
            l1, c1 = advance(line, col, w[i:i + 1])
            r = same(ti, [w[i]]) and go(ti + 1, i + 1, l1, c1)
        memo[key] = r
        return r
    return go(0, s, line, col)
