"""Independent reference recogniser for C constants (C11 6.4.4, 6.4.5) plus the extensions the tool
documents (0b binary; z / wb / i64 integer suffixes; d / df / dd / dl float suffixes; imaginary i / j
after f; L u U u8 prefixes), and classifier for the malformed families M1..M15 of DESIGN.md 4.11.
Works on str and on SymStr (every character test goes through symx.poly.ch_in)."""
from symx.poly import ch_in

DEC, OCT, HEX, NZ = "0123456789", "01234567", "0123456789abcdefABCDEF", "123456789"
LETTER = "abcdefghijklmnopqrstuvwxyzABCDEFGHIJKLMNOPQRSTUVWXYZ_"
ALNUM = LETTER + DEC


def _int_suffixes():
    out = {""}
    us = ["u", "U"]
    ls = ["l", "L", "ll", "LL", "z", "Z", "wb", "WB", "i64", "I64"]
    out.update(us)
    for l in ls:
        out.add(l)
        for u in us:
            out.add(u + l)
            out.add(l + u)
    return out


ISUF = _int_suffixes()
FSUF = {"", "f", "F", "l", "L", "d", "D", "df", "dd", "dl", "DF", "DD", "DL"}
for _a in ("f", "F"):
    for _b in ("i", "I", "j", "J"):
        FSUF.add(_a + _b)
        FSUF.add(_b + _a)


def take(w, i, cls):
    j = i
    while j < len(w) and ch_in(w[j], cls):
        j += 1
    return j


def in_table(rest, table):
    if len(rest) == 0:
        return "" in table
    cands = [t for t in table if len(t) == len(rest)]
    if isinstance(rest, str):
        return rest in cands
    for t in sorted(cands):
        if rest == t:
            return True
    return False


def is_ident_tail(rest):
    """[A-Za-z_][A-Za-z0-9_]*"""
    if len(rest) == 0 or not ch_in(rest[0], LETTER):
        return False
    for c in rest[1:]:
        if not ch_in(c, ALNUM):
            return False
    return True


def classify_number(w):
    """returns (family, shape) for a numeric-looking literal w (no delimiter), family in
    V-int, V-float, M1..M7, M14, or None (not a member of any listed family)"""
    n = len(w)
    if n == 0:
        return None, ""
    c0 = w[0]
    if ch_in(c0, "."):
        # .digits [exp] [suffix]
        j = take(w, 1, DEC)
        if j == 1:
            return None, ""
        return _float_tail(w, j, "dotfrac", had_dot=True)
    if not ch_in(c0, DEC):
        return None, ""
    if ch_in(c0, "0") and n >= 2 and ch_in(w[1], "xX"):
        return _hex(w)
    if ch_in(c0, "0") and n >= 2 and ch_in(w[1], "bB"):
        j = take(w, 2, DEC)
        if j == 2:
            return None, "0b-nodigits"
        bad = any(not ch_in(c, "01") for c in w[2:j])
        rest = w[j:]
        if in_table(rest, ISUF):
            return ("M1" if bad else "V-int"), "bin"
        if not bad and is_ident_tail(rest):
            return "M3", "bin"
        return None, "bin"
    # decimal / octal / decimal float
    j = take(w, 0, DEC)
    if j < n and ch_in(w[j], "."):
        k = take(w, j + 1, DEC)
        return _float_tail(w, k, "frac", had_dot=True)
    if j < n and ch_in(w[j], "eE"):
        return _float_tail(w, j, "exp", had_dot=False)
    rest = w[j:]
    octal = ch_in(c0, "0") and j > 1
    bad_oct = octal and any(not ch_in(c, OCT) for c in w[:j])
    base = "oct" if octal else ("zero" if ch_in(c0, "0") else "dec")
    if in_table(rest, ISUF):
        return ("M2" if bad_oct else "V-int"), base
    if not bad_oct and is_ident_tail(rest):
        return "M3", base
    return None, base


def _float_tail(w, j, shape, had_dot):
    """w[:j] is digits[.digits]; parse optional exponent and suffix"""
    n = len(w)
    has_exp = False
    if j < n and ch_in(w[j], "eE"):
        j2 = j + 1
        if j2 < n and ch_in(w[j2], "+-"):
            j2 += 1
        k = take(w, j2, DEC)
        if k == j2:
            # exponent without digits
            if not had_dot and k == n:
                return "M4", shape
            return None, shape
        has_exp = True
        j = k
    if not had_dot and not has_exp:
        return None, shape
    rest = w[j:]
    if in_table(rest, FSUF):
        return "V-float", shape + ("+exp" if has_exp else "")
    if len(rest) > 0 and ch_in(rest[0], "."):
        # a second dot: [0-9]*\.[0-9]*\.[0-9.]*
        if had_dot and not has_exp and all(ch_in(c, DEC + ".") for c in rest):
            return "M5", shape
        return None, shape
    if is_ident_tail(rest) and not ch_in(rest[0], "eE"):
        return "M6", shape + ("+exp" if has_exp else "")
    return None, shape


def _hex(w):
    n = len(w)
    xs = take(w, 1, "xX")           # 0x, 0xx, ...
    i1 = take(w, xs, HEX)
    intd = i1 - xs
    j = i1
    dot = False
    fracd = 0
    if j < n and ch_in(w[j], "."):
        dot = True
        k = take(w, j + 1, HEX)
        fracd = k - (j + 1)
        j = k
    if j < n and ch_in(w[j], "pP"):
        if intd + fracd == 0:
            return None, "hexfloat"
        j2 = j + 1
        if j2 < n and ch_in(w[j2], "+-"):
            j2 += 1
        k = take(w, j2, DEC)
        if k == j2:
            return None, "hexfloat"
        rest = w[k:]
        shape = "hexfloat" + ("-emptyint" if intd == 0 else "") + ("-emptyfrac" if dot and fracd == 0 else "")
        if xs > 2:
            return ("M7" if in_table(rest, FSUF) else None), shape
        if in_table(rest, FSUF):
            return "V-float", shape
        if is_ident_tail(rest):
            return "M6", shape
        return None, shape
    if dot or xs > 2 or intd == 0:
        return None, "hex"
    first = "b" if ch_in(w[xs], "bB") else "o"
    rest = w[j:]
    shape = "hex-" + first
    if in_table(rest, ISUF):
        return "V-int", shape
    if len(rest) >= 1 and ch_in(rest[0], "+-") and ch_in(w[j - 1], "eE"):
        # 0xe+1: maximal munch makes this one (invalid) pp-number
        return "M14", shape
    if is_ident_tail(rest) and not ch_in(rest[0], "pP"):
        return "M3", shape
    return None, shape


SIMPLE_ESC = "abfnrtv\\'\"?e"     # 'e' (ESC) is the GNU extension the tool accepts


def classify_quoted(w):
    """character constants and string literals: returns (family, shape).
    families: V-char, V-str, M8 (''), M9 ('ab..'), M10eol / M10eof (char cut by newline / EOF),
    M11 (string cut by EOF), M12 (unknown escape), M13 (\\x without digit); None otherwise."""
    n = len(w)
    i = 0
    prefix = ""
    if n >= 3 and ch_in(w[0], "u") and ch_in(w[1], "8") and ch_in(w[2], "'\""):
        i, prefix = 2, "u8"
    elif n >= 2 and ch_in(w[0], "LuU") and ch_in(w[1], "'\""):
        i, prefix = 1, "pfx"
    if i >= n or not ch_in(w[i], "'\""):
        return None, ""
    q = "'" if ch_in(w[i], "'") else '"'
    i += 1
    units = 0
    notes = set()
    closed = False
    while i < n:
        c = w[i]
        if ch_in(c, q):
            closed = True
            i += 1
            break
        if ch_in(c, "\n"):
            if q == "'":
                return (("M10eol", prefix) if i == n - 1 and not notes else (None, ""))
            return None, ""     # raw newline inside a string: not a listed family
        if ch_in(c, "\\"):
            if i + 1 >= n:
                return None, ""
            e = w[i + 1]
            if ch_in(e, "\n"):
                return None, ""             # splice: C12's subject
            if ch_in(e, SIMPLE_ESC):
                i += 2
            elif ch_in(e, OCT):
                j = take(w, i + 1, OCT)
                if j - (i + 1) > 3:
                    return None, ""
                i = j
            elif ch_in(e, "x"):
                j = take(w, i + 2, HEX)
                if j == i + 2:
                    notes.add("M13")
                elif j - (i + 2) > 2:
                    return None, ""
                i = j
            else:
                if ch_in(e, "?\t"):
                    return None, ""
                notes.add("M12")
                i += 2
            units += 1
            continue
        if ch_in(c, "?") or ch_in(c, "<%:\t"):
            return None, ""                 # trigraph/digraph/tab material: C10/C12's subject
        i += 1
        units += 1
    if closed and i != n:
        return None, ""
    if not closed:
        if notes:
            return None, ""
        return ("M10eof" if q == "'" else "M11"), prefix
    if len(notes) > 1:
        return None, ""
    if notes:
        return notes.pop(), prefix + q
    if q == "'":
        if units == 0:
            return "M8", prefix
        if units > 1:
            return "M9", prefix
        return "V-char", prefix
    return "V-str", prefix


EXPECTED = {"M1": "INVALID_BIN_INT", "M2": "INVALID_OCT_INT", "M3": "INVALID_SUFFIX", "M4": "BAD_EXPONENT",
            "M5": "MULTIPLE_DOTS", "M6": "BAD_FLOAT_SUFFIX", "M7": "MULTIPLE_X", "M8": "EMPTY_CHAR",
            "M9": "CHAR_AS_STRING", "M10eol": "UNEXPECTED_EOL_CHR", "M10eof": "UNEXPECTED_EOF_CHR",
            "M11": "UNEXPECTED_EOF_STR", "M12": "UNKNOWN_ESCAPE", "M13": "NO_HEX_DIGITS", "M14": "MAXIMAL_MUNCH",
            "M15": "UNEXPECTED_EOF_MC"}
VALID_TYPE = {"V-int": "CONSTANT", "V-float": "CONSTANT", "V-char": "CHAR_CONST", "V-str": "STRING"}
