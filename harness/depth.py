"""C05 (c): unbounded repetition.  The window / single-edit harnesses bound the length of every construct; this family
looks at what happens when ONE construct is repeated or nested d times, for every construct of a catalogue
(lexer: runs of unmatched characters, splices, blanks, operators; pipeline: nested parentheses / brackets / braces /
calls / casts / unary operators / ifs / pointer stars / initialiser braces / struct blocks / #if parentheses ...).

Per path class (the repeated character is symbolic where a class of characters behaves alike) the instrumented code is
run for d = 1..4 with a call-depth monitor on the /repo frames.  If the Python stack depth grows with d on that class
(a linear lower bound D(d+1) - D(d) >= 1 for every step), the construct is handled recursively and a bound exists
beyond which the interpreter's recursion limit is hit: the class witness is then replayed NATIVELY at d = 1500 and 3000,
and only an escaping RecursionError (or any other internal exception / a hang) is reported.  Constructs whose depth does
not grow are replayed at d = 3000 all the same (sampled), which checks termination in reasonable time."""
import sys
import time
from symx import core
from symx.core import Var, SymStr, Explorer, declare
from symx.run import Collector
from harness import pipeline as P, families as F

HNAME = "harness.depth"
HDR = {}


def hdr(name):
    if name not in HDR:
        HDR[name] = "".join(l.default_text() + "\n" for l in F.header_lines(name)) + "\n"
    return HDR[name]


def fn(body_lines, decl="\tint\t\ta;\n\tint\t\t*p;\n\tint\t\tt[3];\n\n"):
    return "int\tfn(void)\n{\n" + decl + "".join(body_lines) + "}\n"


# name -> (file name, builder(d, U) -> text after the 42 header; U = the symbolic unit character or None, unit class)
def _t(name, fname, build, unit=None):
    return name, (fname, build, unit)


UNMATCHED = "$@`"
TEMPLATES = dict([
    _t("lexer_unmatched_run", "a.c", lambda d, U: [U] * d + list("\n"), UNMATCHED),
    _t("lexer_unmatched_run_in_function", "a.c", lambda d, U: list("int\tfn(void)\n{\n\treturn (0);\n}\n") + [U] * d + list("\n"), UNMATCHED),
    _t("splice_run", "a.c", lambda d, U: list("int" + "\\\n" * d + "\tg_a;\n")),
    _t("blank_run", "a.c", lambda d, U: list("int\tg_a;" + " " * d + "\n")),
    _t("empty_lines", "a.c", lambda d, U: list("int\tg_a;\n" + "\n" * d + "int\tg_b;\n")),
    _t("paren_expr", "a.c", lambda d, U: list(fn(["\treturn (" + "(" * d + "a" + ")" * d + ");\n"]))),
    _t("paren_open_only", "a.c", lambda d, U: list("(" * d + "\n")),
    _t("bracket_open_only", "a.c", lambda d, U: list("int\tg_a" + "[" * d + "\n")),
    _t("brace_open_only", "a.c", lambda d, U: list("int\tfn(void)\n" + "{\n" * d)),
    _t("paren_close_only", "a.c", lambda d, U: list(fn(["\ta = 1" + ")" * d + ";\n"]))),
    _t("bracket_index", "a.c", lambda d, U: list(fn(["\ta = t" + "[t" * d + "[0]" + "]" * d + ";\n"]))),
    _t("call_nest", "a.c", lambda d, U: list(fn(["\ta = " + "f(" * d + "a" + ")" * d + ";\n"]))),
    _t("cast_chain", "a.c", lambda d, U: list(fn(["\ta = " + "(int)" * d + "a;\n"]))),
    _t("not_chain", "a.c", lambda d, U: list(fn(["\ta = " + "!" * d + "a;\n"]))),
    _t("deref_chain", "a.c", lambda d, U: list(fn(["\ta = " + "*" * d + "p;\n"]))),
    _t("pointer_decl", "a.c", lambda d, U: list(fn(["\ta = 0;\n"], decl="\tint\t\ta;\n\tint\t\t" + "*" * d + "q;\n\n"))),
    _t("array_dims", "a.c", lambda d, U: list(fn(["\ta = 0;\n"], decl="\tint\t\ta;\n\tint\t\tq" + "[2]" * d + ";\n\n"))),
    _t("binop_chain", "a.c", lambda d, U: list(fn(["\ta = a" + " + a" * d + ";\n"]))),
    _t("ternary_nest", "a.c", lambda d, U: list(fn(["\ta = " + "a ? a : " * d + "a;\n"]))),
    _t("paren_cond", "a.c", lambda d, U: list(fn(["\tif (" + "(" * d + "a" + ")" * d + ")\n\t\ta = 0;\n"]))),
    _t("if_nest", "a.c", lambda d, U: list(fn(["".join("\t" * (k + 1) + "if (a)\n" for k in range(d)) + "\t" * (d + 1) + "a = 0;\n"]))),
    _t("else_if_chain", "a.c", lambda d, U: list(fn(["\tif (a)\n\t\ta = 0;\n" + "\telse if (a)\n\t\ta = 0;\n" * d]))),
    _t("brace_blocks", "a.c", lambda d, U: list(fn(["\tif (a)\n" + "".join("\t" * (k + 1) + "{\n" for k in range(d)) + "\t" * (d + 1) + "a = 0;\n" +
                                                     "".join("\t" * (k + 1) + "}\n" for k in reversed(range(d)))]))),
    _t("init_braces", "a.c", lambda d, U: list("static int\tg_a = " + "{" * d + "1" + "}" * d + ";\n")),
    _t("call_args", "a.c", lambda d, U: list(fn(["\tf(a" + ", a" * d + ");\n"]))),
    _t("params", "a.c", lambda d, U: list("int\tfn(int a" + "".join(", int a%d" % k for k in range(d)) + ");\n")),
    _t("string_concat", "a.c", lambda d, U: list("static char\t*g_s = " + '"a" ' * d + '"b";\n')),
    _t("comment_run", "a.c", lambda d, U: list("/* a */ " * d + "\n")),
    _t("line_comment_splices", "a.c", lambda d, U: list("// a" + "\\\n b" * d + "\n")),
    _t("pp_if_paren", "a.c", lambda d, U: list("#if " + "(" * d + "1" + ")" * d + "\n# define A 1\n#endif\n")),
    _t("pp_if_not", "a.c", lambda d, U: list("#if " + "!" * d + "1\n# define A 1\n#endif\n")),
    _t("pp_if_binop", "a.c", lambda d, U: list("#if 1" + " + 1" * d + "\n# define A 1\n#endif\n")),
    _t("pp_ifdef_nest", "a.c", lambda d, U: list("".join("#" + " " * k + "ifdef A\n" for k in range(d)) + "".join("#" + " " * k + "endif\n" for k in reversed(range(d))))),
    _t("define_value_parens", "a.c", lambda d, U: list("#define A " + "(" * d + "1" + ")" * d + "\n")),
    _t("struct_nest", "a.h", lambda d, U: list("#ifndef A_H\n# define A_H\n\n" + "".join("\t" * k + "struct s_a%d\n" % k + "\t" * k + "{\n" for k in range(d)) +
                                               "\t" * d + "int\ta;\n" + "".join("\t" * k + "};\n" for k in reversed(range(d))) + "\n#endif\n")),
    _t("func_ptr_nest", "a.c", lambda d, U: list("static int\t" + "(*" * d + "g_f" + ")(void)" * d + ";\n")),
    _t("typedef_stars", "a.h", lambda d, U: list("#ifndef A_H\n# define A_H\n\ntypedef int\t" + "*" * d + "t_p;\n\n#endif\n")),
    _t("label_run", "a.c", lambda d, U: list(fn(["l%d:\n" % k for k in range(d)] + ["\ta = 0;\n"]))),
    _t("return_parens_call", "a.c", lambda d, U: list(fn(["\treturn (" + "f((" * d + "a" + "))" * d + ");\n"]))),
    _t("sizeof_nest", "a.c", lambda d, U: list(fn(["\ta = " + "sizeof(" * d + "a" + ")" * d + ";\n"]))),
    _t("attribute_run", "a.c", lambda d, U: list("int\tfn(void)" + " __attribute__((unused))" * d + ";\n")),
])
DS = (4, 8, 12, 16)
BIG = (1500, 3000)
# constructs whose TEXT grows quadratically with d (one more indentation level per repetition): smaller sizes
BIG_OF = {"if_nest": (200,), "brace_blocks": (200,), "struct_nest": (200,), "pp_ifdef_nest": (300,), "comment_run": (300,)}


def chunks(tier):
    return [dict(t=name) for name in TEMPLATES]


class DepthMonitor:
    """maximum number of simultaneously active /repo frames (call depth), via sys.setprofile"""

    def __init__(self):
        self.depth = 0
        self.max = 0
        self.deepest = None

    def __call__(self, frame, event, arg):
        if event == "call":
            if "/norminette/" in frame.f_code.co_filename:
                self.depth += 1
                if self.depth > self.max:
                    self.max = self.depth
                    self.deepest = frame.f_code.co_filename.split("/norminette/")[-1] + "::" + frame.f_code.co_name
        elif event == "return":
            if "/norminette/" in frame.f_code.co_filename and self.depth > 0:
                self.depth -= 1


def measure(name, text):
    mon = DepthMonitor()
    old = sys.getprofile()
    sys.setprofile(mon)
    try:
        o = P.run_text(name, text)
    finally:
        sys.setprofile(old)
    return o, mon.max, mon.deepest


def run_chunk(chunk, ctx):
    tname = chunk["t"]
    fname, build, unit = TEMPLATES[tname]
    ex = Explorer()
    core.set_run(ex)
    col = Collector(HNAME, seed=ctx["seed"], sample_rate=1.0, max_witness=8)
    U = declare(Var("unit", map(ord, unit))) if unit else None
    cur = {}

    def body():
        cur.clear()
        depths, deepest = [], None
        for d in DS:
            items = list(hdr(fname)) + build(d, U)
            src = SymStr(items) if U is not None else "".join(items)
            o, mx, deepest = measure(fname, src)
            depths.append(mx)
            if o.kind == "exc":
                u = chr(ex.model().eval(U.z, model_completion=True).as_long()) if U is not None else None
                col.violation(f"C05:exception:{o.detail}:{o.site}", f"internal {o.detail} at {o.site} (construct {tname}, repeated {d} times)",
                              dict(t=tname, unit=u, d=d))
                cur["viol"] = True
                return dict(t=tname, depths=depths)
        # slope >= 1 frame per repetition on the last two steps (small sizes are hidden behind the constant base depth)
        grows = all(b - a >= (DS[k + 2] - DS[k + 1]) for k, (a, b) in enumerate(zip(depths[1:], depths[2:])))
        u = chr(ex.model().eval(U.z, model_completion=True).as_long()) if U is not None else None
        cur["case"] = dict(t=tname, unit=u, d=0, grows=grows)
        col.notes[f"depth:{tname}"] = f"{depths} deepest={deepest} grows={grows}"
        if grows:
            col.count("constructs_with_growing_call_depth")
            # the lower bound D(d) >= D(1) + (d - 1) crosses the recursion limit: candidate, decided by the native replay
            col.violation(f"C05:recursion:{tname}", f"call depth grows with every repetition of {tname} ({depths}, deepest frame {deepest}): "
                          "the interpreter's recursion limit is reached for a long enough input", dict(t=tname, unit=u, d=0, grows=True))
            cur["viol"] = True
        return dict(t=tname, depths=depths)

    def on_path(res, status):
        if status == "gap":
            col.gap(str(res)[:100])
        elif status == "timeout":
            col.count("slow_paths_not_analysed")
        elif status == "ok" and not cur.get("viol") and col.want_witness():
            col.add_witness(cur["case"], dict(ok=True))
    ex.explore(body, on_path=on_path, max_time=max(1.0, min(ctx.get("chunk_time", 60), ctx["deadline"] - time.time())), path_alarm=30.0)
    res = col.finish(limit=150)
    # a growing call depth whose native run at the large sizes ends in a controlled way (verdict or CParsingError) is not a
    # violation: such candidates are expected to be 'unconfirmed' and are not an engine disagreement
    res["counters"]["growth_candidates_ending_in_a_controlled_way"] = len([u for u in res["unconfirmed"] if u["fingerprint"].startswith("C05:recursion:")])
    res["unconfirmed"] = [u for u in res["unconfirmed"] if not u["fingerprint"].startswith("C05:recursion:")
                          or "crash" in u.get("native", {}) or "hang" in u.get("native", {})]
    res["stats"] = ex.stats()
    return res


def replay(case):
    tname = case["t"]
    fname, build, unit = TEMPLATES[tname]
    viol = []
    U = case.get("unit")
    if case.get("d"):
        sizes = (case["d"],)
    else:
        sizes = BIG_OF.get(tname, BIG)
    slow = False
    for d in sizes:
        if slow:
            break
        text = hdr(fname) + "".join(build(d, U))
        t0 = time.time()
        o = P.run_text(fname, text)
        slow = time.time() - t0 > 20
        if o.kind == "exc":
            if o.detail == "RecursionError":
                viol.append([f"C05:recursion:{tname}", f"RecursionError escapes for {tname} repeated {d} times"])
            else:
                viol.append([f"C05:exception:{o.detail}:{o.site}", f"internal {o.detail} ({tname} x {d})"])
            break
    return dict(digest=dict(ok=not viol), violations=viol)
