"""C11: differential harness -- independent C constant recogniser (oracle/c_literals.py) vs the real
lexer on the same symbolic literal + delimiter (DESIGN.md 4.11)."""
import time
from symx import core
from symx.core import Var, SymStr, Explorer, declare
from symx.poly import ch_in, conc
from symx.run import Collector
from oracle import c_literals as C

HNAME = "harness.literals"
NUM_ALPHA = "0123456789abcdefABCDEFxXuUlLzZwWiIjJpP+-._gq"
QUO_ALPHA = "'\"\\LuU8xn0178aq9 \n/*"
NUM_DELIMS = [";", " ", ")", ",", "]", "\n", "", "*"]
QUO_DELIMS = [";", " ", ")", ",", "\n", ""]


def chunks(tier, N):
    out = []
    for n in range(1, N + 1):
        for d in range(len(NUM_DELIMS)):
            for g in ("0", "123456789", "."):
                out.append(dict(kind="num", n=n, d=d, g=g))
    for n in range(1, N + 1):
        for d in range(len(QUO_DELIMS)):
            for g in ("'", '"', "LuU", "/"):
                out.append(dict(kind="quo", n=n, d=d, g=g))
    return out


def analyse(kind, lit, delim, out):
    from norminette.file import File
    from norminette.lexer import Lexer
    if kind == "num":
        fam, shape = C.classify_number(lit)
    else:
        fam, shape = C.classify_quoted(lit)
        if fam is None and len(lit) >= 2 and ch_in(lit[0], "/") and ch_in(lit[1], "*"):
            closed = any(ch_in(lit[i], "*") and ch_in(lit[i + 1], "/") for i in range(2, len(lit) - 1))
            if not closed and not any(ch_in(c, "\\?<%:\t") for c in lit):
                fam, shape = "M15", ""
    if fam is None:
        return dict(fam=None)
    if fam in ("M10eof", "M11", "M15") and delim != "":
        return dict(fam=None)
    if fam == "M14" and delim not in (";", " ", ")", ",", "]", "\n", ""):
        return dict(fam=None)
    src = lit + delim
    f = File("t.c", src)
    try:
        toks = list(Lexer(f))
    except Exception as e:
        out(f"C11:{fam}:exception:{type(e).__name__}:{shape}", f"lexer raises {type(e).__name__} on a {fam} literal")
        return dict(fam=fam, exc=type(e).__name__)
    errs = list(f.errors._inner)
    names = sorted({e.name for e in errs})
    first = toks[0] if toks else None
    digest = dict(fam=fam, shape=shape, first=[first.type, first.value] if first else None, errors=names)
    if fam in C.VALID_TYPE:
        want = C.VALID_TYPE[fam]
        problems = []
        if first is None or first.type != want:
            problems.append(f"type={first.type if first else None}")
        elif len(first.value) != len(lit):
            problems.append("split")
        if names:
            problems.append("diag=" + "+".join(names))
        if problems:
            out(f"C11:{fam}:{','.join(problems)}:{shape}",
                f"valid C constant ({fam}, shape {shape}) is not one clean {want} token: {', '.join(problems)}")
    else:
        exp = C.EXPECTED[fam]
        hit = [e for e in errs if e.name == exp]
        if not hit:
            out(f"C11:{fam}:missing={exp},got={'+'.join(names) or 'none'}:{shape}",
                f"malformed constant of family {fam} (shape {shape}) is not reported with {exp} (got: {names or 'nothing'})")
        else:
            h = hit[0].highlights[0] if hit[0].highlights else None
            nl = sum(1 for c in lit if ch_in(c, "\n"))
            if h is None or not (1 <= h.lineno <= 1 + nl) or (nl == 0 and not (1 <= h.column <= len(lit) + 1)):
                out(f"C11:{fam}:anchor:{shape}", f"{exp} for a {fam} constant is not anchored inside the constant")
    return digest


def run_chunk(chunk, ctx):
    kind, n, g = chunk["kind"], chunk["n"], chunk["g"]
    alpha = NUM_ALPHA if kind == "num" else QUO_ALPHA
    delim = (NUM_DELIMS if kind == "num" else QUO_DELIMS)[chunk["d"]]
    ex = Explorer()
    core.set_run(ex)
    dom = sorted(set(map(ord, alpha)))
    chars = [declare(Var(f"c{i}", dom)) for i in range(n)]
    ex.solver.add(core.key_expr(("in", chars[0], frozenset(map(ord, g)))))
    col = Collector(HNAME, seed=ctx["seed"], sample_rate=ctx.get("sample_rate", 0.1))
    cur = {}

    def case_of(m):
        return dict(kind=kind, lit=SymStr(chars).concretize(m), delim=delim)

    def out(fp, what):
        col.violation(fp, what, case_of(ex.model()))
        cur["viol"] = True

    def body():
        cur.clear()
        return analyse(kind, SymStr(chars), delim, out)

    def on_path(res, status):
        if status == "gap":
            col.gap(str(res)[:80])
        elif status == "timeout":
            col.violation("hang::lexer", "lexing a literal does not terminate", case_of(ex.model()))
        elif status == "ok":
            fam = res.get("fam")
            col.count("members:" + str(fam))
            if fam is not None and not cur.get("viol") and col.want_witness():
                m = ex.model()
                col.add_witness(case_of(m), conc(res, m))

    ex.explore(body, on_path=on_path, max_time=max(1.0, ctx["deadline"] - time.time()), path_alarm=5.0)
    res = col.finish()
    res["stats"] = ex.stats()
    return res


def replay(case):
    viol = []
    digest = analyse(case["kind"], case["lit"], case["delim"], lambda fp, what: viol.append([fp, what]))
    return dict(digest=digest, violations=viol)
