"""One-step lexer harness (DESIGN.md 3 L1/L2, 4.5a, 4.9, 4.10).

Window w of n symbolic ASCII characters, symbolic start (line0, col0) >= (1, 1); one call of the real
Lexer.get_next_token() on the instrumented code; assertions are solver queries over the path class.
Serves C05 (tokenizer totality), C09 (positions), C10 (lossless) -- `props` selects the assertions.
"""
import time
import z3
from symx import core, poly
from symx.core import Var, SymStr, SymInt, Explorer, declare, EngineGap
from symx.poly import ch_in, feasible, ne, conc, str_ne, c_or
from symx.run import Collector
from oracle import lex as O

HNAME = "harness.lexer_step"

# first-character groups used to split the root domain into chunks
_GROUPS = ["0", "123456789", ".", "'", '"', "/", "?", "\\", "<", "%:", ">", "+-", "*=!&|^~", ",;#(){}[]", " \t\n",
           "LuU", "abcdefghijklmnopqrstvwxyz", "ABCDEFGHIJKMNOPQRSTVWXYZ_"]


IDENT0 = "abcdefghijklmnopqrstuvwxyzABCDEFGHIJKLMNOPQRSTUVWXYZ_"
IDENTN = IDENT0 + "0123456789"
FAM_DELIMS = " ;(\n\t=,"
COMMENT_BODY = "a \t\n*/"
LC_BODY = "a ?/\\\n"
Q_BODY = "a\\?/'\"\n"


def chunks(tier, N):
    out = [dict(n=0, g=-1)]
    for n in range(1, N + 1):
        for g in range(len(_GROUPS) + 1):
            out.append(dict(n=n, g=g))
    # family windows: longer lexemes of ONE sub-parser, alphabet restricted to what keeps the lexer inside it
    #   ident:   L identifier characters + one delimiter (every keyword / reserved spelling up to that length)
    #   comment: '/*' + body over {a, blank, tab, newline, '*', '/'} + '*/' (multi-line comments with tabs)
    for L in range(2, 21):
        for first in ("lower", "upper_"):
            out.append(dict(n=L + 1, g=-1, fam="ident", first=first))
    for L in ((3, 4) if tier == "quick" else (3, 4, 5, 6)):
        out.append(dict(n=L + 4, g=-1, fam="comment"))
    #   linecomment: '//' + body over {a, blank, ?, /, backslash, newline} (splices of both spellings inside and after a comment)
    #   quoted: a quote + body over {a, backslash, ?, /, the two quotes, newline} (escapes spelled with trigraphs, splices)
    for L in ((4, 5, 6, 7) if tier == "quick" else (4, 5, 6, 7, 8, 9)):
        for c0 in LC_BODY:
            out.append(dict(n=L + 2, g=-1, fam="linecomment", first=c0))
    for L in ((3, 4, 5) if tier == "quick" else (3, 4, 5, 6)):
        for q in "'\"":
            for c0 in Q_BODY:
                out.append(dict(n=L + 1, g=-1, fam="quoted", quote=q, first=c0))
    return out


def _group_codes(g):
    if g < len(_GROUPS):
        return frozenset(map(ord, _GROUPS[g]))
    used = set()
    for s in _GROUPS:
        used |= set(map(ord, s))
    return frozenset(range(128)) - used


def span_features(w, s, k):
    """path-invariant feature set of the raw span w[s:k] (every test forks, so all members of a path agree)"""
    feats = set()
    i = s
    prev_bs = False
    while i < k:
        c, n = O.unit(w, i)
        if c is None:
            feats.add("splice")
            prev_bs = False
        else:
            if n == 3:
                feats.add("trigraph")
            elif n == 2:
                feats.add("digraph")
            if ch_in(c, "\t"):
                feats.add("tab_after_backslash" if prev_bs else "tab")
            if ch_in(c, "\n"):
                feats.add("newline")
            prev_bs = (not prev_bs) and ch_in(c, "\\")
        i += n
    if k >= len(w):
        feats.add("at_eof")
    return ",".join(sorted(feats)) or "-"


def analyse(w, line0, col0, props, out):
    """run one lexer step on window w from (line0, col0). out(prop, fingerprint, what, cond) is called for
    each assertion whose negation `cond` is not trivially False.  Returns a digest of the observables."""
    from norminette.file import File
    from norminette.lexer import Lexer
    f = File("t.c", w)
    lx = Lexer(f)
    lx._Lexer__line, lx._Lexer__line_pos = line0, col0
    try:
        tok = lx.get_next_token()
    except Exception as e:
        from symx.native import site_of
        site = site_of(e.__traceback__)
        out("C05", f"C05:lexer-exception:{type(e).__name__}:{site}",
            f"Lexer.get_next_token raises {type(e).__name__} at {site}", True)
        return dict(exc=type(e).__name__)
    k = lx._Lexer__pos
    endl, endc = lx.line_pos()
    s, bad = O.junk(w)
    errs = list(f.errors._inner)
    digest = dict(k=k, end=[endl, endc], errors=[[e.name, [[h.lineno, h.column] for h in e.highlights]] for e in errs])
    nbad = sum(1 for e in errs if e.name == "BAD_LEXEME")
    if tok is None:
        digest["tok"] = None
        if k != len(w):
            out("C05", "C05:eof-early", "get_next_token returned None before the end of input", True)
        if "C10" in props and nbad != len(bad):
            out("C10", f"C10:badlex-count:eof", f"{nbad} BAD_LEXEME for {len(bad)} unmatched characters", True)
        return digest
    digest["tok"] = [tok.type, list(tok.pos), tok.value]
    ttype = tok.type
    feats = None
    if "C09" in props:
        rl, rc = O.advance(line0, col0, w[:s])
        tl, tc = tok.pos
        cond = c_or(ne(tl, rl), ne(tc, rc))
        if cond is not False:
            out("C09", f"C09:token_pos:{ttype}:{span_features(w, 0, s)}",
                f"{ttype} token position differs from the true position of its first character", cond)
        el, ec = O.advance(line0, col0, w[:k])
        cond = c_or(ne(endl, el), ne(endc, ec))
        if cond is not False:
            feats = span_features(w, s, k)
            out("C09", f"C09:end_pos:{ttype}:{feats}",
                f"lexer position after a {ttype} token [{feats}] differs from the true position", cond)
        # lexical diagnostics: BAD_LEXEME at its own offset, others anchored inside [token start, token end]
        bi = 0
        for e in errs:
            if not e.highlights:
                out("C09", f"C09:diag_nohl:{e.name}", f"{e.name} without highlight", True)
                continue
            h = e.highlights[0]
            if e.name == "BAD_LEXEME":
                if bi < len(bad):
                    pl, pc = O.advance(line0, col0, w[:bad[bi]])
                    cond = c_or(ne(h.lineno, pl), ne(h.column, pc))
                    if cond is not False:
                        out("C09", f"C09:diag_pos:BAD_LEXEME:{span_features(w, 0, bad[bi])}",
                            "BAD_LEXEME not located at the offending character", cond)
                bi += 1
            else:
                # ... and at the START of a logical character (never in the middle of a trigraph / digraph spelling or of a
                # splice): the offsets where a unit begins, plus the end of the token
                starts, off = [], s
                while off < k:
                    starts.append(off)
                    off += O.unit(w, off)[1]
                starts.append(k)
                conds = []
                for off in starts:
                    pl, pc = O.advance(line0, col0, w[:off])
                    conds.append(poly.c_and(poly.eq(h.lineno, pl), poly.eq(h.column, pc)))
                inside = c_or(*conds)
                cond = poly.c_not(inside)
                if cond is not False:
                    feats = feats or span_features(w, s, k)
                    out("C09", f"C09:diag_pos:{e.name}:{ttype}:{feats}",
                        f"{e.name} is not located inside its {ttype} token", cond)
    if "C09" in props:
        # every highlight of every lexical diagnostic (hints included) lies inside the text: not before the start line, not
        # after the last line that holds a character
        # (the end of the CONSUMED span: the characters behind it were not looked at by this step, and a lexical diagnostic of
        # this step cannot point there)
        tl, tc = O.advance(line0, col0, w[:k])
        last_line = tl
        if k:
            lc = w[k - 1]
            lv = lc if type(lc) is str else lc.it[0]
            if type(lv) is str:
                last_line = tl - 1 if lv == "\n" else tl
            else:
                tle = SymInt.lift(tl)
                last_line = SymInt(z3.If(lv.z == 10, tle - 1, tle))
        for e in errs:
            for hi, h in enumerate(e.highlights):
                cond = c_or(poly.lt(h.lineno, line0), poly.gt(h.lineno, last_line), poly.lt(h.column, 1))
                if cond is not False:
                    out("C09", f"C09:highlight_outside_text:{e.name}:{'first' if hi == 0 else 'secondary'}",
                        f"a highlight of {e.name} lies outside the text (line before the start / after the last line, or column < 1)", cond)
    if "C10" in props:
        if nbad != len(bad):
            out("C10", f"C10:badlex-count:{ttype}", f"{nbad} BAD_LEXEME for {len(bad)} unmatched characters", True)
        if not (k > s):
            out("C10", f"C10:no-progress:{ttype}", "token consumed no character", True)
        else:
            tl0, tc0 = O.advance(line0, col0, w[:s])
            got = tok.value if tok.value is not None else O.LEXEME_OF.get(ttype)
            if got is None or not O.text_matches(got, w, s, k, tl0, tc0, ttype == "MULT_COMMENT"):
                feats = feats or span_features(w, s, k)
                out("C10", f"C10:text:{ttype}:{feats}",
                    f"text of the {ttype} token [{feats}] is not the (normalised) source text it consumed", True)
            # value presence must match the token kind
            if (tok.value is not None) != (ttype in O.VALUED_TYPES):
                out("C10", f"C10:value-presence:{ttype}", f"{ttype} token value presence", True)
            # blanks and newlines are tokens of their own
            if ch_in(w[s], " \t\n") and k != s + 1:
                out("C10", "C10:blank-merge", "a blank/newline token spans more than one character", True)
    return digest


def run_chunk(chunk, ctx):
    props = ctx["props"]
    n, g = chunk["n"], chunk["g"]
    ex = Explorer()
    core.set_run(ex)
    chars = [declare(Var(f"c{i}", range(128))) for i in range(n)]
    if n and g >= 0:
        ex.solver.add(core.key_expr(("in", chars[0], _group_codes(g))) if _group_codes(g) else z3.BoolVal(False))
    fam = chunk.get("fam")
    if fam == "ident":
        f0 = "abcdefghijklmnopqrstuvwxyz" if chunk["first"] == "lower" else "ABCDEFGHIJKLMNOPQRSTUVWXYZ_"
        chars = ([declare(Var("c0", map(ord, f0)))] + [declare(Var(f"c{i}", map(ord, IDENTN))) for i in range(1, n - 1)] +
                 [declare(Var(f"c{n - 1}", map(ord, FAM_DELIMS)))])
    if fam == "linecomment":
        chars = (["/", "/", declare(Var("c2", [ord(chunk["first"])]))] + [declare(Var(f"c{i}", map(ord, LC_BODY))) for i in range(3, n)])
    if fam == "quoted":
        chars = ([chunk["quote"], declare(Var("c1", [ord(chunk["first"])]))] + [declare(Var(f"c{i}", map(ord, Q_BODY))) for i in range(2, n)])
    if fam == "comment":
        chars = (["/", "*"] + [declare(Var(f"c{i}", map(ord, COMMENT_BODY))) for i in range(2, n - 2)] + ["*", "/"])
    line0, col0 = z3.Int("line0"), z3.Int("col0")
    ex.solver.add(line0 >= 1, col0 >= 1)
    col = Collector(HNAME, seed=ctx["seed"], sample_rate=ctx.get("sample_rate", 0.05))
    if fam:
        col.sample_rate = 1.0 if fam == "ident" else (0.2 if fam == "comment" else 0.03)
    cur = {}

    def out(prop, fp, what, cond):
        if prop not in props:
            if prop == "C05" and cond is True:
                # an exception / early EOF met while checking another property: confirm natively that it is real
                m = ex.model()
                col.probe(fp, dict(w=SymStr(chars).concretize(m) if chars else "", line=m.eval(line0, model_completion=True).as_long(),
                                   col=m.eval(col0, model_completion=True).as_long(), props=["C05"]))
            return
        if feasible(cond):
            m = ex.solver.model() if cond is not True else ex.model()
            case = dict(w=SymStr(chars).concretize(m) if chars else "",
                        line=m.eval(line0, model_completion=True).as_long(),
                        col=m.eval(col0, model_completion=True).as_long(), props=sorted(props))
            col.violation(fp, what, case)
            cur["viol"] = True

    def body():
        cur.clear()
        w = SymStr(chars) if chars else ""
        return analyse(w, SymInt(line0), SymInt(col0), props, out)

    def on_path(res, status):
        if status == "gap":
            col.gap(str(res)[:80])
        elif status == "timeout":
            m = ex.model()
            case = dict(w=SymStr(chars).concretize(m) if chars else "", line=1, col=1, props=sorted(props))
            import traceback
            from symx.native import hang_site
            col.violation("hang::" + hang_site(res.__traceback__), "lexer step does not terminate", case)
        elif status == "ok" and not cur.get("viol") and col.want_witness():
            m = ex.model()
            case = dict(w=SymStr(chars).concretize(m) if chars else "",
                        line=m.eval(line0, model_completion=True).as_long(),
                        col=m.eval(col0, model_completion=True).as_long(), props=sorted(props))
            col.add_witness(case, conc(res, m))

    left = max(1.0, ctx["deadline"] - time.time())
    ex.explore(body, on_path=on_path, max_time=left, path_alarm=5.0)
    res = col.finish()
    res["stats"] = ex.stats()
    return res


def replay(case):
    viol = []

    def out(prop, fp, what, cond):
        if prop in case["props"] and (cond is True or (cond is not False and feasible(cond))):
            viol.append([fp, what])
    digest = analyse(case["w"], case["line"], case["col"], set(case["props"]), out)
    return dict(digest=digest, violations=viol)
