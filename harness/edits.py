"""Text-level symbolic edits of small programs through the whole real pipeline (DESIGN.md 4.5b, 4.7, 4.6):
at a token boundary of a base program insert one lexeme of solver-chosen spelling from the token language,
or delete / swap tokens, or cut the file there.  Every explored input is real text (replay = norminette <file>).

Serves  C05 (no hang, no internal exception),  C07 (partition monitor, fatal-on-unrecognised),
        C06 (footprint invariant after every run)."""
import sys
import time
import z3
from symx import core
from symx.core import Var, SymStr, Explorer
from symx.poly import conc
from symx.run import Collector
from harness import families as F, pipeline as P

HNAME = "harness.edits"

_WORDS = None


def words():
    """spellings of the fixed lexemes (the oracle's own tables, not dictionary.py)"""
    global _WORDS
    if _WORDS is None:
        from oracle import lex as O
        _WORDS = sorted(set(list(O.KEYWORDS) + list(O.PUNCT) + list(O.TRI) + list(O.DI) + ["defined", "include", "define", "ifndef", "endif", "if", "else", "elif", "ifdef", "undef", "pragma", "error", "main"]))
    return _WORDS


def lexeme_constraint(vs):
    """z3 constraint: the L characters form one lexeme of the token language"""
    L = len(vs)
    alts = [z3.And([v.z == ord(c) for v, c in zip(vs, w)]) for w in words() if len(w) == L]

    def rng(v, a, b):
        return z3.And(v.z >= ord(a), v.z <= ord(b))
    ident = z3.And([z3.Or(rng(v, 'a', 'z'), rng(v, 'A', 'Z'), v.z == 95, (rng(v, '0', '9') if i else False)) for i, v in enumerate(vs)])
    const = z3.And([z3.Or(rng(v, '0', '9'), (z3.Or(v.z == ord('x'), v.z == ord('.'), rng(v, 'a', 'f'), v.z == ord('u'), v.z == ord('l')) if i else False))
                    for i, v in enumerate(vs)])
    alts += [ident, const]
    if L == 1:
        alts.append(z3.Or(vs[0].z == 32, vs[0].z == 9, vs[0].z == 10))
    if L >= 2:
        inner = [z3.And(v.z >= 32, v.z <= 126, v.z != 92, v.z != 34, v.z != 39) for v in vs[1:-1]]
        alts.append(z3.And([vs[0].z == 34, vs[-1].z == 34] + inner))                       # "..."
        if L == 3:
            alts.append(z3.And([vs[0].z == 39, vs[-1].z == 39] + inner))                   # 'c'
        alts.append(z3.And([vs[0].z == 47, vs[1].z == 47] + [z3.And(v.z >= 32, v.z <= 126, v.z != 92) for v in vs[2:]]))   # //...
    if L >= 4:
        alts.append(z3.And([vs[0].z == 47, vs[1].z == 42, vs[-2].z == 42, vs[-1].z == 47] +
                           [z3.And(v.z >= 32, v.z <= 126, v.z != 92, v.z != 42) for v in vs[2:-2]]))                       # /*...*/
    return z3.Or(alts)


BASE_SRC = {
    "fn.c": "int\tfn(int a, char *s)\n{\n\tint\ti;\n\n\ti = 0;\n\twhile (s[i] && i < a)\n\t{\n\t\tif (s[i] == 'x')\n\t\t\treturn (i);\n"
            "\t\ti++;\n\t}\n\treturn (-1);\n}\n",
    "gl.c": "#include \"libft.h\"\n#define SIZE 42\n\nstatic int\tg_n = 0;\n\nstatic void\tup(int *p);\n\nstatic void\tup(int *p)\n{\n"
            "\t*p += SIZE;\n\tg_n = *p;\n}\n",
    "ty.h": "#ifndef TY_H\n# define TY_H\n\n# include <stddef.h>\n\ntypedef struct s_pt\n{\n\tint\t\tx;\n\tchar\t*name;\n}\tt_pt;\n\n"
            "int\tpt_len(t_pt *p);\n\n#endif\n",
    # one statement of (nearly) every primary rule kind, conforming or not: typedef / enum blocks in a .c file, global, casts,
    # ternaries, for, do-while, switch/case, goto + label, calls, expression statements
    "zoo.c": '#include <stdlib.h>\n\ntypedef struct s_node\n{\n\tint\t\t\t\tval;\n\tstruct s_node\t*next;\n}\tt_node;\n\nenum e_col\n{\n\tRED,\n\tBLUE\n};\n\nstatic int\tg_cnt = 0;\n\nint\tzoo(int a, char *s)\n{\n\tt_node\t\t*n;\n\tenum e_col\tc;\n\tint\t\t\ti;\n\n\tn = (t_node *)malloc(sizeof(t_node));\n\tc = RED;\n\t(void)s;\n\ti = a ? 1 : 2;\n\tfor (i = 0; i < a; i++)\n\t\tg_cnt += i;\n\tdo\n\t{\n\t\ti--;\n\t} while (i > 0);\n\tswitch (a)\n\t{\n\t\tcase 1:\n\t\t\tbreak ;\n\t\tdefault:\n\t\t\ti = 3;\n\t}\n\tgoto end;\nend:\n\tfree(n);\n\treturn (c == RED ? i : a);\n}\n',
    "pp.c": "#if defined(A) && (B > 2)\n# define C 1\n#elif VERSION_AT_LEAST(2, 7)\n# define C 2\n#else\n# define C 0\n#endif\n\nint\tmain(void)\n{\n\treturn (C);\n}\n",
}


def base_text(name, header=True):
    hdr = "".join(l.default_text() + "\n" for l in F.header_lines(name)) + "\n" if header else ""
    return hdr + BASE_SRC[name]


_bounds = {}


def boundaries(name):
    """raw offsets of the token starts of the base program (after its header) + end of file"""
    if name in _bounds:
        return _bounds[name]
    import subprocess
    import json
    from symx.run import PY, VERIF
    code = (("import sys, json; sys.path.insert(0,%r); sys.path.insert(0,%%r)\n" % __import__("symx").REPO) +
            "from harness import edits as E\n"
            "print(json.dumps(E._native_boundaries(%r)))\n") % (VERIF, name)
    out = subprocess.run([PY, "-c", code], capture_output=True, text=True, timeout=60)
    _bounds[name] = json.loads(out.stdout.strip().splitlines()[-1])
    return _bounds[name]


def _native_boundaries(name):
    from norminette.file import File
    from norminette.lexer import Lexer
    text = base_text(name)
    hdr_len = len(text) - len(BASE_SRC[name])
    offs = []
    # offsets by re-lexing prefixes is quadratic; instead map (line, col) -> offset (no tabs-before-token issue: compute)
    lines = text.split("\n")
    starts = [0]
    for l in lines:
        starts.append(starts[-1] + len(l) + 1)
    for t in Lexer(File(name, text)):
        ln, colno = t.pos
        line = lines[ln - 1]
        c, off = 1, 0
        while c < colno and off < len(line):
            c += (4 - (c - 1) % 4) if line[off] == "\t" else 1
            off += 1
        o = starts[ln - 1] + off
        if o >= hdr_len:
            offs.append(o)
    offs.append(len(text))
    return offs


def chunks(tier, props, seed=0):
    """cheap deterministic chunks first (open-state cuts, structural edits), then the insertion sweep in a seeded order:
    the quick tier is budget-limited, and what it does not reach is reported as chunks_not_reached"""
    import random
    first, inserts = [], []
    lens = (1, 2, 3, 4) if tier == "quick" else (1, 2, 3, 4, 5, 6)
    progs = ["fn.c", "ty.h", "zoo.c"] if tier == "quick" else list(BASE_SRC)
    # the cheap deterministic chunks also run on the remaining base programs in the quick tier
    cheap = progs + [n for n in BASE_SRC if n not in progs]
    for name in cheap:
        # files that END in an open state: cut after each of the first lines (inside / right after the 42 header, after
        # the first statements), inside a header comment line, and the empty file
        first.append(dict(prog=name, b=0, op="headcut"))
    for name in cheap:
        nb = len(boundaries(name))
        step = ((4 if name == "zoo.c" else 2) if name in progs else 6) if tier == "quick" else 1
        for b in range(0, nb - 1, step):
            first.append(dict(prog=name, b=b, op="structural"))
        text = base_text(name)
        offs = boundaries(name)
        for b in range(0, nb, step):
            inserts.append(dict(prog=name, b=b, op="insert", lens=list(lens), sp=[""] if tier == "quick" else ["", " "]))
        # the same insertion as a fragment on a line of its own, at EVERY statement (line) boundary
        for b in range(nb):
            if offs[b] < len(text) and (offs[b] == 0 or text[offs[b] - 1] == "\n"):
                inserts.append(dict(prog=name, b=b, op="insert", lens=list(lens[:3]), sp=["\n"]))
    for name in progs:
        nb = len(boundaries(name))
        step = {"zoo.c": 8, "fn.c": 2}.get(name, 1) if tier == "quick" else 1
        for b in range(1, nb - 1, step):
            inserts.append(dict(prog=name, b=b, op="replace", lens=list(lens)))
    # seeded order; chunks of the small programs (cheap paths) tend to come first so that a budget-limited run reaches more
    rnd = random.Random(seed)
    weight = {"ty.h": 1.0, "fn.c": 1.6, "gl.c": 1.6, "pp.c": 1.6, "zoo.c": 4.0}
    inserts.sort(key=lambda c: rnd.random() * weight.get(c["prog"], 2.0))
    junk = []
    for name in progs:
        for g in range(0, len(JUNK), 6):
            junk.append(dict(prog=name, b=0, op="junkline", group=g))
    return first + junk + inserts


# lines that cannot be (the beginning of) any C statement or declaration: closers, separators, binary-only operators,
# member selectors, unmatched / malformed lexemes
JUNK = [")", "]", ",", "/", "%", "=", "==", "!=", "<", ">", "<=", ">=", "?", ":", ".", "->", "^", "|", "||", "+=", "),", ") )",
        "] ;", ", a", "= 1;", "? a : b;", ": a;", ". a;", "-> a;", "/ 2;", ")\t", "@", "$", "`", "0x", "1a", "##", ">>=", "...", "%:%:"]


# ---------------------------------------------------------------------------------------------- monitors
def _iter_rest(it):
    """what a module-level iterator still holds, WITHOUT consuming it (a deep copy is read instead; where an iterator cannot be
    copied only its length hint is recorded)"""
    import copy, warnings, itertools, operator
    try:
        with warnings.catch_warnings():
            warnings.simplefilter("ignore")
            c = copy.deepcopy(it)
        return "iterator holding " + repr(list(itertools.islice(c, 200)))
    except Exception:
        return "iterator, length hint %d" % operator.length_hint(it, -1)


def snapshot():
    """process-global state a later analysis could read (C06 footprint)"""
    import copy
    snap = {"recursionlimit": sys.getrecursionlimit()}
    for mname, mod in list(sys.modules.items()):
        if not (mname == "norminette" or mname.startswith("norminette.")):
            continue
        snap["module:" + mname] = "loaded"
        for k, v in list(vars(mod).items()):
            if k.startswith("__") or k == "_symrt_":
                continue
            if isinstance(v, (list, dict, set)):
                try:
                    snap[f"{mname}.{k}"] = repr(v) if not isinstance(v, dict) else repr(sorted(v.items(), key=repr))
                except Exception:
                    snap[f"{mname}.{k}"] = "<unrepr>"
            elif hasattr(v, "__next__"):
                # a module-level ITERATOR is process-global state too (it is consumed by use): what is left in it
                snap[f"{mname}.{k}"] = _iter_rest(v)
            elif isinstance(v, type) and getattr(v, "__module__", "") == mname:
                for ck, cv in list(vars(v).items()):
                    if ck.startswith("__") or ck in ("context", "name") or callable(cv) or isinstance(cv, (property, staticmethod, classmethod)):
                        continue
                    if isinstance(cv, (list, dict, set, tuple, str, int, float, bool, type(None))):
                        snap[f"{mname}.{k}.{ck}"] = repr(cv)
    try:
        import norminette.registry as R
        snap["rules.primaries"] = repr([r.__name__ for r in R.rules.primaries])
        snap["rules.checks"] = repr([r.__name__ for r in R.rules.checks])
        reg = P.registry()
        snap["registry.dependencies"] = repr(sorted((k, [r.__name__ for r in v]) for k, v in reg.dependencies.items() if v))
        for k, v in sorted(vars(reg).items()):
            if k != "dependencies":
                snap[f"registry.{k}"] = repr(v)[:400]
        for k, v in sorted(vars(type(reg)).items()):
            if not k.startswith("__") and not callable(v):
                snap[f"Registry.{k}"] = repr(v)[:400]
    except Exception as e:
        snap["rules"] = f"<{type(e).__name__}>"
    return snap


def c07_violations(o, debug=0):
    v = []
    segs = o.segments
    if not segs:
        return v
    prev_hist = 0
    unrec = 0
    total = segs[0][1]
    covered = 0
    for n, before, hist in segs:
        if not isinstance(n, int) or n < 1:
            v.append(("C07:no-progress", "a statement consumed no token (Registry.run would loop forever)"))
            break
        if before != total - covered:
            v.append(("C07:overlap-or-gap", "segments are not consecutive"))
            break
        covered += min(n, before)
        if hist == prev_hist:
            unrec += 1
        prev_hist = hist
    if o.kind == "ok":
        if covered != total:
            v.append(("C07:not-covered", "the statements do not cover the whole token stream"))
        if unrec and debug == 0:
            v.append(("C07:unrecognised-but-ok", "tokens that no rule recognises are dropped and the file still gets a verdict"))
    return v


def junk_class(frag):
    t = frag.split()[0] if frag.split() else frag
    if t in (")", "]"):
        return "closer"
    if t in ("@", "$", "`", "0x", "1a", "##", "%:%:"):
        return "bad-lexeme"
    if t in (",", ":", "?", ".", "->", "..."):
        return "separator"
    return "binary-operator"


def analyse(name, text, props, out, ref_snapshot=None, junk=None):
    lim0 = sys.getrecursionlimit()
    try:
        o = P.run_text(name, text, monitor=("C07" in props or junk is not None))
    finally:
        lim1 = sys.getrecursionlimit()
        if lim1 != lim0:
            sys.setrecursionlimit(lim0)      # hygiene: later paths / replays must not inherit the leak
    if "C06" in props and lim1 != lim0:
        out("C06", "C06:footprint:recursionlimit", f"processing a file leaves sys.getrecursionlimit() at {lim1} (was {lim0})")
    if "C05" in props and o.kind == "exc":
        out("C05", f"C05:exception:{o.detail}:{o.site}", f"internal {o.detail} at {o.site}")
    if "C07" in props:
        for fp, what in c07_violations(o):
            out("C07", fp, what)
    if "C07" in props and junk is not None and o.kind == "ok" and not any(e[1] == "Error" for e in o.errors):
        # a line that cannot begin any statement was neither reported as unrecognised nor did it cost the file its OK!
        line, frag = junk
        rule = "?"
        for info in o.seginfo:
            if info[5] is not None and info[5] <= line:
                rule = str(info[4])
        rule = rule.split(".")[-1].split(" ")[0].strip("<>")
        out("C07", f"C07:junk-line-in-ok-file:{rule}:{junk_class(frag)}",
            f"a line consisting of {frag!r} (which cannot begin any statement) is swallowed by {rule} and the file is still OK!")
    if "C08" in props:
        for fp, what in P.wellformed_violations(o.file, text):
            out("C08", fp, what)
    if "C06" in props and ref_snapshot is not None:
        now = snapshot()
        # a module imported for the first time during the run is not a state change: compare only what both
        # snapshots can see
        def visible(k, other):
            if k.startswith("module:"):
                return False
            parts = k.split(".")
            for n in range(len(parts), 0, -1):
                if "module:" + ".".join(parts[:n]) in other:
                    return True
            return not k.startswith("norminette")
        diff = sorted(k for k in set(now) | set(ref_snapshot)
                      if now.get(k) != ref_snapshot.get(k) and visible(k, now) and visible(k, ref_snapshot))
        if diff:
            out("C06", "C06:footprint:" + "+".join(diff)[:160], f"processing a file changes process-global state: {diff[:4]}")
    return dict(kind=o.kind, detail=o.detail, errors=[list(e) for e in o.errors], nseg=len(o.segments))


def run_chunk(chunk, ctx):
    props = set(ctx["props"])
    name, b, op = chunk["prog"], chunk["b"], chunk["op"]
    text = base_text(name)
    offs = boundaries(name)
    ex = Explorer()
    core.set_run(ex)
    col = Collector(HNAME, seed=ctx["seed"], sample_rate=ctx.get("sample_rate", 0.05))
    ref = snapshot() if "C06" in props else None
    cur = {}
    variants = []
    if op == "insert":
        for L in chunk["lens"]:
            for sp in chunk.get("sp", [""]):
                variants.append(("ins", L, sp))
    elif op == "replace":
        for L in chunk["lens"]:
            variants.append(("rep", L))
    elif op == "junkline":
        tl = text.split("\n")[:-1]
        first_line = 12                     # after the 42 header and its blank line
        variants = [("junk", j, ln, True) for j in range(chunk["group"], min(len(JUNK), chunk["group"] + 6))
                    for ln in range(first_line, len(tl) + 1)]
        variants += [("junk", j, len(tl), False) for j in range(chunk["group"], min(len(JUNK), chunk["group"] + 6))]
    elif op == "headcut":
        nl = text.count("\n")
        variants = [("hcut", k, keep) for k in range(0, min(nl, 16) + 1) for keep in (True, False)] + [("hmid", 3), ("hmid", 11)]
    else:
        variants = [("cut", 0), ("cut_nl", 0), ("del", 1), ("del", 2), ("swap", 0), ("dup", 0)]
    vsets = {}

    def build(variant):
        off = offs[b]
        kind = variant[0]
        if kind == "rep":           # the token starting at the boundary replaced by one solver-chosen lexeme
            L = variant[1]
            key = ("ins", L)
            if key not in vsets:
                vs = [Var(f"x{L}_{i}", range(128)) for i in range(L)]
                vsets[key] = (vs, [v.domain_constraint() for v in vs] + [lexeme_constraint(vs)])
            vs, cons = vsets[key]
            ex.solver.add(*cons)
            nxt_ = offs[b + 1] if b + 1 < len(offs) else len(text)
            return list(text[:off]) + vs + list(text[nxt_:])
        if kind == "junk":          # a junk line of its own in front of line ln (or as the last line, with / without newline)
            tl = text.split("\n")[:-1]
            frag, ln, nl = JUNK[variant[1]], variant[2], variant[3]
            return list("".join(l + "\n" for l in tl[:ln]) + frag + ("\n" if nl else "") + "".join(l + "\n" for l in tl[ln:]))
        if kind == "hcut":          # the first k lines, with / without the last newline
            t = "".join(l + "\n" for l in text.split("\n")[:variant[1]])
            return list(t if variant[2] else t[:-1])
        if kind == "hmid":          # cut in the middle of header line k: an unterminated block comment
            ls = text.split("\n")
            return list("".join(l + "\n" for l in ls[:variant[1] - 1]) + ls[variant[1] - 1][:40])
        if kind == "ins":
            L, sp = variant[1], variant[2]
            key = ("ins", L)
            if key not in vsets:
                vs = [Var(f"x{L}_{i}", range(128)) for i in range(L)]
                vsets[key] = (vs, [v.domain_constraint() for v in vs] + [lexeme_constraint(vs)])
            vs, cons = vsets[key]
            ex.solver.add(*cons)
            return list(text[:off]) + vs + list(sp) + list(text[off:])
        nxt = offs[b + 1] if b + 1 < len(offs) else len(text)
        nxt2 = offs[b + 2] if b + 2 < len(offs) else len(text)
        if kind == "cut":
            return list(text[:off])
        if kind == "cut_nl":
            return list(text[:off] + "\n")
        if kind == "del":
            end = nxt if variant[1] == 1 else nxt2
            return list(text[:off] + text[end:])
        if kind == "swap":
            return list(text[:off] + text[nxt:nxt2] + text[off:nxt] + text[nxt2:])
        if kind == "dup":
            return list(text[:off] + text[off:nxt] + text[off:])
        raise ValueError(kind)

    def body():
        cur.clear()
        vi = core.choose("variant", len(variants)) if len(variants) > 1 else 0
        items = build(variants[vi])
        cur["items"] = items
        src = SymStr(items) if any(not isinstance(x, str) for x in items) else "".join(items)

        junk = None
        if variants[vi][0] == "junk":
            junk = (variants[vi][2] + 1, JUNK[variants[vi][1]])
        cur["junk"] = junk

        def out(prop, fp, what):
            if prop in props:
                col.violation(fp, what, dict(name=name, text=conc(src) if not isinstance(src, str) else src, props=sorted(props), junk=junk))
                cur["viol"] = True
        res = analyse(name, src, props, out, ref, junk=junk)
        return res

    def on_path(res, status):
        items = cur.get("items")
        if status == "gap":
            col.gap(str(res)[:100])
        elif status == "timeout":
            if items is not None and "C05" in props:
                from symx.native import hang_site
                col.violation("hang::" + hang_site(res.__traceback__), "the analysis does not terminate",
                              dict(name=name, text=SymStr(items).concretize(ex.model()), props=sorted(props)))
        elif status == "ok" and not cur.get("viol") and col.want_witness():
            col.add_witness(dict(name=name, text=SymStr(items).concretize(ex.model()), props=sorted(props), junk=cur.get("junk")), conc(res))

    left = max(1.0, min(ctx.get("chunk_time", 60), ctx["deadline"] - time.time()))
    ex.explore(body, on_path=on_path, max_time=left, path_alarm=ctx.get("alarm", 8.0), max_paths=ctx.get("max_paths"))
    res = col.finish(limit=15)
    res["stats"] = ex.stats()
    return res


def replay(case):
    viol = []
    props = set(case["props"])
    ref = snapshot() if "C06" in props else None

    def out(prop, fp, what):
        if prop in props:
            viol.append([fp, what])
    digest = analyse(case["name"], case["text"], props, out, ref, junk=tuple(case["junk"]) if case.get("junk") else None)
    return dict(digest=digest, violations=viol)
