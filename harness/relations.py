"""Relational pipeline properties decided on path partitions / two runs per path:
C18 (identifier spelling), C17 (comment / literal contents), C19 (locality: header, comment line,
appended function).  All run the real Lexer + Registry on program text with symbolic slots."""
import time
from symx import core
from symx.core import SymStr, Explorer
from symx.poly import conc
from symx.run import Collector
from harness import families as F, pipeline as P

HNAME = "harness.relations"
IDKINDS = ("id", "fname", "macro", "path", "idnp")
CONTENT_CHARS = ("ABCDEFGHIJKLMNOPQRSTUVWXYZabcdefghijklmnopqrstuvwxyz0123456789"
                 " _+-*/%<>=!&|^~?:;,.(){}[]#@$")


def outcome_key(o):
    return [o.kind, o.detail if o.kind != "ok" else "", [list(e) for e in o.errors]]


def spelling_feature(ta, tb):
    """do the two texts differ in a place where one of them holds a trigraph / digraph spelling?  (such a spelling is three /
    two columns wide in the source and one character in the token value: width-based rules see another width)"""
    feats = set()
    for x, y in zip(ta.split("\n"), tb.split("\n")):
        if x != y:
            for t in (x, y):
                if any(("??" + c) in t for c in "<>()=/'!-"):
                    feats.add("trigraph")
                elif any(d in t for d in ("<%", "%>", "<:", ":>", "%:")):
                    feats.add("digraph")
    return "+".join(sorted(feats)) or "plain"


def diff_fp(prop, a, b):
    """fingerprint of a difference between two outcome keys: the codes present on one side only"""
    if a[0] != b[0] or a[1] != b[1]:
        return f"{prop}:verdict:{a[0]}{a[1]}|{b[0]}{b[1]}"
    ea = [tuple(x) for x in a[2]]
    eb = [tuple(x) for x in b[2]]
    only_a = sorted({x[0] for x in ea if x not in eb})
    only_b = sorted({x[0] for x in eb if x not in ea})
    return f"{prop}:diag:{'+'.join(only_a) or '-'}|{'+'.join(only_b) or '-'}"


# ---------------------------------------------------------------------------------------------- program variants
def with_comments(prog, seed, inside=False):
    """insert comment lines (own line, file level) and end-of-line comments; contents are 'comment' slots"""
    import random
    r = random.Random(seed)
    p = prog.clone()
    out = []
    n = 0
    for i, l in enumerate(p.lines):
        top = l.kind in ("func_sig", "global", "proto", "include", "define", "utype_open", "guard_endif")
        prev_blank = i > 0 and p.lines[i - 1].kind in ("blank",)
        if top and prev_blank and n < 3 and r.random() < 0.5:
            k = r.randint(1, 4)
            s = F.Slot("comment", "x" * k)
            form = r.choice(["block", "line", "multi"])
            if form == "block":
                out.append(F.Line(["/* ", s, " */"], "comment"))
            elif form == "line":
                out.append(F.Line(["// ", s], "comment"))
            else:
                out.append(F.Line(["/*"], "comment"))
                out.append(F.Line(["** ", s], "comment"))
                out.append(F.Line(["*/"], "comment"))
            n += 1
        if l.kind in ("global", "proto", "include", "define") and n < 4 and r.random() < 0.3:
            s = F.Slot("comment", "y" * r.randint(1, 3))
            l = l.copy()
            l.parts = l.parts + [" /* ", s, " */"] if r.random() < 0.5 else l.parts + [" // ", s]
            if F.width(l.default_text()) > 80:
                l = p.lines[i]
            else:
                n += 1
        out.append(l)
        if inside and l.kind == "func_open" and n < 5:
            s = F.Slot("comment", "z" * r.randint(1, 3))
            out.append(F.Line(["\t/* ", s, " */"], "comment_in_func", 1, l.func))
            n += 1
            inside = False
    p.lines = out
    return p


VIOL_OPS_H = ["79_declaration_before_guard", "78b_tag_without_prefix", "39_misaligned_prototype", "78_typedef_without_prefix",
              "73a_directive_not_indented_in_guard"]
VIOL_OPS = ["19_misaligned_declaration", "39_misaligned_prototype", "11_no_empty_line_between_functions", "07_double_empty_line",
            "69_include_after_code", "04_extra_indent_tab", "55_no_space_before_operator", "21_declaration_with_initialisation",
            "30_space_before_function_name", "12_no_empty_line_after_decls", "66_lowercase_macro", "01_trailing_space",
            "26_global_without_prefix", "48_return_without_parentheses", "64_comment_in_function", "78_typedef_without_prefix"]


def violate(prog, k, op=None):
    """a violating variant of a conforming program: the k-th applicable (operator, site) of a fixed operator list
    (or of the given operator)"""
    from harness import violations as V
    if op is not None:
        cands = V.candidates(prog, op)
        if not cands:
            return None
        q = cands[k % len(cands)][0]
        q.meta = dict(prog.meta, violated=op)
        return q
    ops = (VIOL_OPS_H + VIOL_OPS) if prog.name.endswith(".h") else VIOL_OPS
    if prog.name.endswith(".h"):
        ops = ops[k % len(VIOL_OPS_H):] + ops[:k % len(VIOL_OPS_H)]
    for j in range(len(ops)):
        op = ops[(k + j) % len(ops)] if not prog.name.endswith(".h") else ops[j]
        cands = V.candidates(prog, op)
        if cands:
            q = cands[(k // len(ops)) % len(cands)][0]
            q.meta = dict(prog.meta, violated=op)
            return q
    return prog


def strip_header(prog):
    p = prog.clone()
    ls = [l for l in p.lines if l.kind != "header"]
    if ls and ls[0].kind == "blank":
        ls = ls[1:]
    p.lines = ls
    return p


def bind_contents(prog, ex, kinds, n_max, content_len=None):
    """choose up to n_max slots of the given kinds; returns ids"""
    ids = []
    for s in prog.slots():
        if s.kind in kinds and len(ids) < n_max:
            ids.append(s.id)
    return set(ids)


class ContentSlot(F.Slot):
    pass


def _bind_content(slot, ex, tag):
    """contents over the code-like replacement alphabet of DESIGN.md 4.17"""
    import z3
    from symx.core import Var
    n = len(slot.default)
    s = ex.solver
    k = slot.kind

    def mk(i, chars):
        v = Var(f"k{tag}_{slot.id}_{i}", map(ord, chars))
        s.add(v.domain_constraint())
        return v
    if k == "str":
        vs = ['"'] + [mk(i, CONTENT_CHARS + "'") for i in range(1, n - 1)] + ['"']
    elif k == "chr":
        vs = ["'", mk(1, CONTENT_CHARS + '"'), "'"]
    else:
        vs = [mk(i, CONTENT_CHARS + "'\"") for i in range(n)]
        for a, b in zip(vs, vs[1:]):
            s.add(z3.Not(z3.And(a.z == ord("*"), b.z == ord("/"))))
        # keep the comment's own delimiters intact: no leading '/', no trailing '*' next to the delimiter
    sv = [v for v in vs if not isinstance(v, str)]
    if k == "comment" and sv:
        # the slot may directly follow a '*' of the template ("**<text>"): a leading '/' would close the comment
        s.add(sv[0].z != ord("/"))
    if getattr(slot, "allow_trigraphs", False):
        for a, b, c in zip(sv, sv[1:], sv[2:]):
            # "??/" is the trigraph spelling of a backslash: excluded like the backslash itself
            s.add(z3.Not(z3.And(a.z == ord("?"), b.z == ord("?"), c.z == ord("/"))))
    else:
        # no trigraph / digraph can form (three / two columns in the source, one character in the token: another WIDTH, which
        # the property excludes); alternative spellings are allowed in the dedicated template a11.c only
        for a, b in zip(sv, sv[1:]):
            s.add(z3.Not(z3.And(a.z == ord("?"), b.z == ord("?"))))
            for d in ("<%", "%>", "<:", ":>", "%:"):
                s.add(z3.Not(z3.And(a.z == ord(d[0]), b.z == ord(d[1]))))
    slot.vars = vs
    return vs


def distinct_names(ex, varlists):
    """consistent renaming keeps distinct identifiers distinct"""
    import z3
    vls = [v for v in varlists if any(not isinstance(x, str) for x in v)]
    for i in range(len(vls)):
        for j in range(i + 1, len(vls)):
            a, b = vls[i], vls[j]
            if len(a) != len(b):
                continue
            diffs = []
            same_possible = True
            for x, y in zip(a, b):
                if isinstance(x, str) and isinstance(y, str):
                    if x != y:
                        same_possible = False
                        break
                elif isinstance(x, str):
                    diffs.append(y.z != ord(x))
                elif isinstance(y, str):
                    diffs.append(x.z != ord(y))
                else:
                    diffs.append(x.z != y.z)
            if same_possible and diffs:
                ex.solver.add(z3.Or(diffs))


def items_with(prog, ex, sym_ids, content_ids, full_first=(), distinct=False):
    bound = {}
    out = []
    for l in prog.lines:
        for p in l.parts:
            if isinstance(p, str):
                out += list(p)
            elif p.id in content_ids:
                if p.id not in bound:
                    bound[p.id] = _bind_content(p, ex, "")
                out += bound[p.id]
            elif p.id in sym_ids:
                if p.id not in bound:
                    bound[p.id] = p.bind(ex, "", narrow_first=p.id not in full_first)
                out += bound[p.id]
            else:
                out += list(p.default)
        out.append("\n")
    return out


C17_MICRO = [
    # (file name, body template); {S} string slot, {C} char slot, {K} comment text slot
    ("a1.c", "int\tfn(int a)\n{\n\tint\t\tcnt[{C} - {C} + 1];\n\tchar\tbuf[{C}];\n\n\tcnt[0] = a;\n\tbuf[0] = {C};\n\treturn (cnt[0]);\n}\n"),
    ("a2.c", "static int\tg_tab[{C}];\n\nint\tfn(void)\n{\n\treturn (g_tab[0] == {C});\n}\n"),
    ("a3.h", "#ifndef A3_H\n# define A3_H\n\n# define MSG {S}\n# define CH {C}\n\ntypedef struct s_rec\n{\n\tchar\tname[{C} - {C} + 1];\n\tint\t\tid;\n}\tt_rec;\n\nint\tfn(char *s); /* {K} */\n\n#endif\n"),
    ("a4.c", "int\tfn(char *s)\n{\n\tif (cmp(s, {S}) == 0 && s[0] != {C})\n\t\treturn (len({S}));\n\twhile (s[0] == {C})\n\t\ts++;\n\tput({S}, {C}, s);\n\treturn (0);\n}\n"),
    ("a5.c", "/* {K} */\n#include <unistd.h> // {K}\n\n// {K}\nstatic char\t*g_s = {S}; /* {K} */\n\n/*\n** {K}\n*/\nint\tfn(void)\n{\n\treturn (g_s[0] == {C});\n}\n// {K}\n"),
    ("a7.c", "/*{K}*/\n#include <unistd.h> /*{K}*/\n\nint\tfn(void); /*{K}*/\n\n/*\n**{K}\n**{K}*/\nint\tfn(void)\n{\n\treturn (0);\n}\n"),
    # multi-line block comments whose CLOSING line carries something the tool locates by column (trailing blank, code)
    ("a8.c", "/*\n** {K}\n*/ \nint\tfn(void)\n{\n\treturn (0);\n}\n/* {K}\n{K} */\t\n"),
    ("a9.c", "/* {K}\n*/ int\tg_a;\n\n/*\n{K}*/int\tfn(void)\n{\n\treturn (0);\n} /* {K}\n{K} */ \n"),
    # comment lines that cross the 80-column limit only through their (symbolic) last characters
    ("a10.c", "// " + "x" * 75 + "{K}\n/*\n** " + "y" * 75 + "{K}\n*/\nint\tfn(void)\n{\n\treturn (0);\n}\n/* " + "z" * 74 + "{K}\n*/\n"),
    # the same long interior line with trigraphs ALLOWED in the replacement text ({Q}): the known width finding lives here only
    ("a11.c", "/*\n** " + "y" * 75 + "{Q}\n*/\nint\tfn(void)\n{\n\treturn (0);\n}\n"),
    # two comments (and two strings) of the same length on ONE line, inside an instruction: they may or may not have the same text
    ("a12.c", "int\tfn(int a)\n{\n\tput(/* {E} */ a, /* {E} */ 1, 4);\n\tput({F}, {F});\n\treturn (a); /* {E} */ /* {E} */\n}\n"),
    ("a6.c", "int\tfn(char c)\n{\n\tchar\t*p;\n\n\tp = (char *){S};\n\tp = {S} + 1;\n\tc = {C} + 1;\n\tc = (char){C};\n\tc = -{C};\n\tfoo({S}, {S});\n\treturn (c == {C} || p[0] == {C});\n}\n"),
]


C18_SPECIAL = [
    # identifiers in places where the tool's own scans walk over them: stringification / token pasting in macro bodies
    # inside a conditional block, names in #if / #ifdef / #undef, function-like macro calls in conditions
    ("s1.h", "#ifndef S1_H\n# define S1_H\n\n# define STR({a}) #{a}\n# define CAT({a}, {b}) {a}##{b}\n# define {M} 42\n\nint\t{c}(int {a});\n\n#endif\n"),
    ("s2.c", "#ifdef {M}\n# define {N} 1\n#else\n# define {N} 2\n#endif\n#undef {M}\n#if defined({N}) && {N} > 1\n# define {K} #{N}\n#endif\n\nint\t{c}(int {a})\n{\n\treturn ({a} + {N});\n}\n"),
    ("s3.c", "#if {M}({N}, 7)\n# define {K}({a}) {a}##{a}\n#elif {N}\n# define {K}({b}) #{b}\n#endif\n\nint\t{c}(void)\n{\n\treturn ({K}(1));\n}\n"),
    # operands of seven letters in conditions (room for every spelling the tool might treat specially by mistake: DEFINED, INCLUDE, ...)
    ("s5.c", "#if {L} && {M}\n# define {N} 1\n#elif {L} == 1\n# define {N} 2\n#elif {L}({M}, 1)\n# define {N} 3\n#endif\n#ifdef {L}\n# undef {L}\n#endif\n\nint\t{c}(void)\n{\n\treturn ({N});\n}\n"),
    # array dimensions named by macros, at every declaration site (global, struct member, local, parameter): the tool decides
    # "macro constant or variable-length array" from the SPELLING of the dimension's identifier
    ("s6.c", "#define {M} 42\n#define {N} 8\n\nchar\tg_buf[{M}];\n\ntypedef struct s_{a}\n{\n\tchar\t{b}[{M}];\n\tint\t{c}[2 * {N}];\n}\tt_{a};\n\nint\t{c}(char argv[{N}])\n{\n\tchar\t{a}[{M}];\n\tint\t{b}[{N} + 1];\n\n\t{a}[0] = {b}[0] + argv[0];\n\treturn ({a}[{M} - 1]);\n}\n"),
    ("s4.h", "#ifndef S4_H\n# define S4_H\n\n# ifdef {M}\n#  define {K}({a}, {b}) {a} ## {b}\n# endif\n\ntypedef struct s_{a}\n{\n\tint\t{b};\n}\tt_{a};\n\n#endif\n"),
]


def c18_special(idx):
    import re
    name, tmpl = C18_SPECIAL[idx]
    lines = F.header_lines(name) + [F.Line([""], "blank")]
    slots = {}
    defaults = {"a": "arg", "b": "bit", "c": "cnt", "M": "MAC", "N": "NUM", "K": "KEY", "L": "FEATURE"}
    for raw in tmpl.split("\n")[:-1]:
        parts = []
        for tok in re.split(r"(\{[a-cMNKL]\})", raw):
            if re.fullmatch(r"\{[a-cMNKL]\}", tok):
                k = tok[1]
                if k not in slots:
                    slots[k] = F.Slot("macro" if k.isupper() else "id", defaults[k])
                parts.append(slots[k])
            elif tok:
                parts.append(tok)
        lines.append(F.Line(parts or [""], "raw"))
    return F.Prog(name, lines)


# headerless files that BEGIN with comments (the state 'no header seen yet' lasts through their leading comment block)
C19_SPECIAL = [
    ("h1.c", "/* " + "x" * 80 + " */\n\nint\tmain(void)\n{\n\treturn (0);\n}\n"),
    ("h2.c", "// " + "x" * 80 + "\n// second\n\nint\tmain(void)\n{\n\treturn (0);\n}\n"),
    ("h3.c", "/*\n** " + "x" * 80 + "\n*/\n/* short */\n\nint\tmain(void)\n{\n\treturn 0;\n}\n"),
    ("h4.h", "/* about */\n/* " + "y" * 79 + " */\n#ifndef H4_H\n# define H4_H\n\nint\tfoo(void);\n\n#endif\n"),
    ("h5.c", "/* a */ /* b */\n\n\nint\tmain(void)\n{\n\treturn (0);\n}\n"),
]


def c19_special(idx):
    name, text = C19_SPECIAL[idx]
    return F.Prog(name, [F.Line([l], "raw") for l in text.split("\n")[:-1]])


def c17_micro(idx):
    import re
    name, tmpl = C17_MICRO[idx]
    lines = F.header_lines(name) + [F.Line([""], "blank")]
    k = 0
    for raw in tmpl.split("\n")[:-1]:
        parts = []
        for tok in re.split(r"(\{[SCKQEF]\})", raw):
            if tok == "{E}":
                parts.append(F.Slot("comment", "abc"))      # fixed length: equal texts are possible
                continue
            if tok == "{F}":
                parts.append(F.Slot("str", '"ab"'))
                continue
            if tok == "{Q}":
                q = F.Slot("comment", "abc")
                q.allow_trigraphs = True
                parts.append(q)
                continue
            if tok == "{S}":
                k += 1
                parts.append(F.Slot("str", '"' + "abcd"[: 1 + k % 4] + '"'))
            elif tok == "{C}":
                parts.append(F.Slot("chr", "'a'"))
            elif tok == "{K}":
                k += 1
                parts.append(F.Slot("comment", "note"[: 1 + k % 4]))
            elif tok:
                parts.append(tok)
        lines.append(F.Line(parts or [""], "raw"))
    return F.Prog(name, lines)


# ---------------------------------------------------------------------------------------------- chunks
def chunks(prop, tier, n):
    out = []
    if prop in ("C18", "C19"):
        # every header-specific violation operator on a few header instances (deterministic coverage of the
        # guard / type-naming / prototype-alignment rules in violating files)
        for i in ((3, 7, 11) if tier == "quick" else range(3, 60, 4)):
            for vop in VIOL_OPS_H:
                if prop == "C18":
                    out.append(dict(prop=prop, seed=i, kind="h", rot=0, viol=True, vop=vop))
                else:
                    out.append(dict(prop=prop, seed=i, kind="h", mode="comment", sub=0, viol=True, vop=vop))
    # boundary-maximal / corner programs (harness/families.py maximal_programs) as bases of every relation
    for mi, mp in enumerate(F.maximal_programs()):
        kind = "h" if mp.name.endswith(".h") else "c"
        if prop == "C19":
            for mode in ("header", "comment", "append"):
                if mode == "append" and (kind == "h" or mp.meta.get("nfuncs", 5) >= 5):
                    continue
                out.append(dict(prop=prop, maxi=mi, seed=mi, kind=kind, mode=mode, sub=len(out)))
        elif prop == "C17":
            out.append(dict(prop=prop, maxi=mi, seed=mi, kind=kind, inside=True, rot=0))
        else:
            out.append(dict(prop=prop, maxi=mi, seed=mi, kind=kind, rot=0))
    if prop == "C19":
        for m in range(len(C19_SPECIAL)):
            out.append(dict(prop=prop, special19=m, seed=m, kind="c", mode="header", sub=len(out)))
            out.append(dict(prop=prop, special19=m, seed=m, kind="c", mode="header", sub=len(out), gap=True))
        # bases with exactly FOUR functions: the appended function reaches the limit of five exactly
        for sd in four_function_seeds(3 if tier == "quick" else 12):
            out.append(dict(prop=prop, seed=sd, kind="c", mode="append", sub=len(out), gen_tier="thorough"))
            out.append(dict(prop=prop, seed=sd, kind="c", mode="append", sub=len(out), gen_tier="thorough", viol=True))
        # the appended function has a forward declaration in the base file; bases with a naming / declaration violation
        for sd in ((1, 2, 5, 6) if tier == "quick" else range(1, 40, 2)):
            for vop in ("28_uppercase_in_function_name", "27_uppercase_in_variable", None):
                out.append(dict(prop=prop, seed=sd, kind="c", mode="append", sub=len(out), proto=True, viol=vop is not None, vop=vop))
    if prop == "C18":
        for m in range(len(C18_SPECIAL)):
            for rot in range(2):
                out.append(dict(prop=prop, special=m, seed=m, kind="c", rot=rot))
        for m in range(len(F.micro_programs())):
            out.append(dict(prop=prop, micro=m, seed=m, kind="c", rot=0))
    if prop == "C17":
        for m in range(len(C17_MICRO)):
            for rot in range(3):
                out.append(dict(prop=prop, micro=m, rot=rot, seed=m, kind="c"))
    for i in range(n):
        kind = "h" if i % 4 == 3 else "c"
        if prop == "C19":
            for mode in ("header", "comment", "append"):
                if mode == "append" and kind == "h":
                    continue
                out.append(dict(prop=prop, seed=i, kind=kind, mode=mode, sub=len(out), viol=(i % 2 == 1)))
        elif prop == "C17":
            out.append(dict(prop=prop, seed=i, kind=kind, inside=(i % 3 == 2), rot=i // 4, viol=(i % 4 == 1)))
        else:
            out.append(dict(prop=prop, seed=i, kind=kind, rot=i % 3, viol=(i % 2 == 1)))
    return out


_FOUR = {}


def four_function_seeds(n):
    if n not in _FOUR:
        out, sd = [], 0
        while len(out) < n and sd < 2000:
            if F.program(sd, "thorough", "c").meta.get("nfuncs") == 4:
                out.append(sd)
            sd += 1
        _FOUR[n] = out
    return _FOUR[n]


def shifted(errors, at_line, by, drop=None):
    """expected diagnostics after inserting `by` lines before line `at_line` (1-based)"""
    out = []
    for name, level, line, col in errors:
        if drop and (name, line) == drop:
            continue
        out.append((name, level, line + by if (line is not None and line >= at_line) else line, col))
    return out


def same_multiset(a, b):
    return sorted(map(tuple, a), key=repr) == sorted(map(tuple, b), key=repr)


def run_chunk(chunk, ctx):
    prop = chunk["prop"]
    ex = Explorer()
    core.set_run(ex)
    col = Collector(HNAME, seed=ctx["seed"], sample_rate=ctx.get("sample_rate", 0.1))
    prog = F.program(chunk["seed"], chunk.get("gen_tier", ctx["tier"]), chunk["kind"])
    if "maxi" in chunk:
        prog = F.maximal_programs()[chunk["maxi"]]
    if chunk.get("viol") and "micro" not in chunk:
        prog = violate(prog, chunk["seed"], chunk.get("vop"))
        if prog is None:
            return dict(stats=dict(paths=0, exhaustive=True), validated=0, confirmed=[], unconfirmed=[], n_mismatch=0, mismatches=[],
                        samples=[], gaps={}, counters={"skipped_operator_not_applicable": 1}, notes={})
    cur = {}
    if prop in ("C18", "C17"):
        if prop == "C18" and "micro" in chunk:
            prog = F.micro_programs()[chunk["micro"]]
            slots = prog.slots()
            ids = {s.id for s in slots if s.kind in IDKINDS}
            opslots = [s for s in slots if s.kind in ("binop1", "binop2", "unop1", "incdec", "assign2")]
            OPSETS = {"binop1": ["+", "*", "&", "-", "<", "/"], "binop2": ["==", "&&", "<<"], "unop1": ["-", "!", "*", "&"],
                      "incdec": ["++", "--"], "assign2": ["+=", "*="]}
            bound_ids = {}

            def micro_items(choice):
                out = []
                for l in prog.lines:
                    for q in l.parts:
                        if isinstance(q, str):
                            out += list(q)
                        elif q.id in ids:
                            if q.id not in bound_ids:
                                n0 = len(ex.solver.assertions())
                                vs = q.bind(ex, "", narrow_first=False)
                                bound_ids[q.id] = (vs, list(ex.solver.assertions())[n0:])
                            else:
                                ex.solver.add(*bound_ids[q.id][1])
                            out += bound_ids[q.id][0]
                        elif q.id in choice:
                            out += list(choice[q.id])
                        else:
                            out += list(q.default)
                    out.append("\n")
                distinct_names(ex, [v[0] for v in bound_ids.values()])
                return out
            items = None
        elif prop == "C18":
            if "special" in chunk:
                prog = c18_special(chunk["special"])
            slots = prog.slots()
            ids = {s.id for s in slots if s.kind in IDKINDS or s.kind.startswith("pid:")}
            group = [s for s in slots if s.kind in IDKINDS]
            full = set()
            if group:
                st = (chunk["rot"] * 2) % len(group)
                full = {group[(st + k) % len(group)].id for k in range(min(2, len(group)))}
            items = items_with(prog, ex, ids, set(), full, distinct=True)
        else:
            if "micro" in chunk:
                prog = c17_micro(chunk["micro"])
            else:
                prog = with_comments(prog, chunk["seed"], inside=chunk.get("inside", False))
            cand = [s for s in prog.slots() if s.kind in ("comment", "str", "chr")]
            k = ctx.get("max_slots", 3)
            rot = chunk.get("rot", 0)
            cids = [cand[(rot * k + j) % len(cand)].id for j in range(min(k, len(cand)))] if cand else []
            if not cids:
                return dict(stats=dict(paths=0), validated=0, confirmed=[], unconfirmed=[], n_mismatch=0, mismatches=[],
                            samples=[], gaps={}, counters={"skipped_no_content_slot": 1}, notes={})
            items = items_with(prog, ex, set(), set(cids))
        ref = {}

        def body():
            cur.clear()
            its = items
            rk = "ref"
            if its is None:
                choice = {}
                for sl in opslots:
                    opts = OPSETS[sl.kind]
                    choice[sl.id] = opts[core.choose(f"op{sl.id}", len(opts))]
                its = micro_items(choice)
                rk = tuple(sorted(choice.items()))
            cur["items"] = its
            o = P.run_text(prog.name, SymStr(its))
            key = outcome_key(o)
            ckey = conc(key)
            if o.kind == "exc":
                # an internal exception may be the engine's own (an operation on a proxy the real code never sees): confirm it on
                # the real code; a non-reproducing one makes the check inconclusive instead of being compared as an 'outcome'
                col.probe(f"{prop}:exception:{o.detail}", dict(prop=prop, name=prog.name, a=SymStr(its).concretize(ex.model()),
                                                                b=SymStr(its).concretize(ex.model())))
            if rk not in ref:
                ref[rk] = (ckey, SymStr(its).concretize(ex.model()))
            elif ckey != ref[rk][0]:
                m = ex.model()
                text = SymStr(its).concretize(m)
                fp = diff_fp(prop, ref[rk][0], ckey)
                if prop == "C17":
                    fp += ":" + ("alt-spellings-allowed" if prog.name == "a11.c" else spelling_feature(ref[rk][1], text))
                col.violation(fp,
                              f"{'renaming identifiers' if prop == 'C18' else 'replacing comment/literal text'} changes the diagnostics",
                              dict(prop=prop, name=prog.name, a=ref[rk][1], b=text))
                cur["viol"] = True
            return dict(key=ckey, rk=rk)

        def on_path(res, status):
            if status == "gap":
                col.gap(str(res)[:100])
            elif status == "timeout":
                col.count("slow_paths_not_analysed")
            elif status == "ok" and not cur.get("viol") and col.want_witness():
                text = SymStr(cur["items"]).concretize(ex.model())
                col.add_witness(dict(prop=prop, name=prog.name, a=ref[res["rk"]][1], b=text), dict(same=True, key=res["key"]))
    else:
        mode = chunk["mode"]
        if "special19" in chunk:
            prog = c19_special(chunk["special19"])
        base = strip_header(prog) if mode == "header" else prog
        slots = base.slots()
        ids = {s.id for s in slots if s.kind in IDKINDS or s.kind in ("dec", "hex", "oct")}
        # variant program
        var = base.clone()
        if mode == "header":
            if chunk.get("gap"):
                var.lines = F.header_lines(prog.name) + [F.Line([""], "blank")] + var.lines
                at, by = 1, 12
            else:
                var.lines = F.header_lines(prog.name) + var.lines
                at, by = 1, 11
        elif mode == "comment":
            # every top-level boundary after the 42 header: before an include / define / global / prototype / type /
            # function / blank line (not inside function bodies or type blocks)
            tops = [i for i, l in enumerate(base.lines)
                    if i > 11 and l.kind in ("func_sig", "proto", "utype_open", "include", "define", "global", "blank", "guard_endif")
                    and l.func is None or (l.kind == "func_sig" and i > 11)]
            # between two empty lines the insertion legitimately separates them (CONSECUTIVE_NEWLINES goes away): not a site
            tops = [i for i in tops if not (base.lines[i].kind == "blank" and base.lines[i - 1].kind == "blank")]
            if not tops:
                return dict(stats=dict(paths=0), validated=0, confirmed=[], unconfirmed=[], n_mismatch=0, mismatches=[],
                            samples=[], gaps={}, counters={"skipped_no_boundary": 1}, notes={})
            cs = F.Slot("comment", "xyz"[: 1 + chunk["seed"] % 3])
            cline = F.Line(["/* ", cs, " */"] if chunk["seed"] % 2 else ["// ", cs], "comment")
            ids.add(cs.id)
            at, by = None, 1            # the boundary is solver-chosen inside the path (every top-level boundary)
        else:
            if base.meta.get("nfuncs", 5) >= 5:
                return dict(stats=dict(paths=0), validated=0, confirmed=[], unconfirmed=[], n_mismatch=0, mismatches=[],
                            samples=[], gaps={}, counters={"skipped_five_funcs": 1}, notes={})
            g = F.Gen(chunk["seed"] + 100000, ident_len=(3, 6), max_funcs=1)
            fl, _ = g.func(99, [], [], [])
            if chunk.get("proto"):
                # the appended function is declared further up (a forward declaration in front of the first function): the base
                # file already holds that prototype, the variant adds the definition
                sig = fl[0]
                k = next((i for i, l in enumerate(base.lines) if l.kind == "func_sig"), len(base.lines))
                pl = [F.Line(list(sig.parts) + [";"], "proto"), F.Line([""], "blank")]
                base.lines = base.lines[:k] + pl + base.lines[k:]
                var = base.clone()
                slots = base.slots()
                ids |= {s.id for s in slots if s.kind in IDKINDS or s.kind in ("dec", "hex", "oct")}
                nbase_shift = len(pl)
            var.lines = var.lines + [F.Line([""], "blank")] + fl
            ids |= {s.id for l in fl for s in l.slots() if s.kind in IDKINDS}
            at, by = 10 ** 9, 0
        bound = {}
        bound_cons = {}

        def items_of(p):
            out = []
            for l in p.lines:
                for q in l.parts:
                    if isinstance(q, str):
                        out += list(q)
                    elif q.id in ids:
                        if q.id not in bound:
                            n0 = len(ex.solver.assertions())
                            bound[q.id] = q.bind(ex, "", narrow_first=True)
                            bound_cons[q.id] = (bound[q.id], list(ex.solver.assertions())[n0:])
                        out += bound[q.id]
                    else:
                        out += list(q.default)
                out.append("\n")
            return out
        ia = items_of(base)
        ib = items_of(var) if mode != "comment" else None
        nbase = len(base.lines)
        # pre-bind the comment slot so that every boundary shares it
        if mode == "comment":
            items_of(F.Prog(prog.name, [cline]))

        def body():
            cur.clear()
            nonlocal_at = at
            ib_ = ib
            if mode == "comment":
                b = tops[core.choose("boundary", len(tops))] if len(tops) > 1 else tops[0]
                v2 = base.clone()
                v2.lines = v2.lines[:b] + [cline] + v2.lines[b:]
                ex.solver.add(*[c for vs, c in bound_cons.values() for c in c])
                ib_ = items_of(v2)
                nonlocal_at = b + 1
            cur["ib"] = ib_
            cur["at"] = nonlocal_at
            oa = P.run_text(prog.name, SymStr(ia))
            ob = P.run_text(prog.name, SymStr(ib_))
            alone = None
            if mode == "append":
                # the appended function as a file of its own (42 header + function): what the tool says about it THERE is a
                # matter of C01 (is the function accepted?), not of locality
                alone = conc(outcome_key(P.run_text(prog.name, SymStr(alone_items(ia, ib_)))))
            res = check_c19(mode, conc(outcome_key(oa)), conc(outcome_key(ob)), nonlocal_at, by, nbase, alone=alone,
                            na=sum(1 for x in ia if x == "\n"))
            if res:
                m = ex.model()
                col.violation(res[0], res[1], dict(prop="C19", mode=mode, name=prog.name, a=SymStr(ia).concretize(m),
                                                   b=SymStr(ib_).concretize(m), at=nonlocal_at, by=by, nbase=nbase))
                cur["viol"] = True
            return dict(ok=not res)

        def on_path(res, status):
            if status == "gap":
                col.gap(str(res)[:100])
            elif status == "timeout":
                col.count("slow_paths_not_analysed")
            elif status == "ok" and not cur.get("viol") and col.want_witness():
                m = ex.model()
                col.add_witness(dict(prop="C19", mode=mode, name=prog.name, a=SymStr(ia).concretize(m),
                                     b=SymStr(cur["ib"]).concretize(m), at=cur["at"], by=by, nbase=nbase), dict(ok=True))
    left = max(1.0, min(ctx.get("chunk_time", 60), ctx["deadline"] - time.time()))
    ex.explore(body, on_path=on_path, max_time=left, path_alarm=60.0, max_paths=ctx.get("max_paths"))
    res = col.finish()
    res["stats"] = ex.stats()
    return res


def alone_items(ia, ib):
    """42 header + empty line of the base file, then the appended function (the variant minus the base and the separating line)"""
    n, k = 0, 0
    for k, x in enumerate(ia):
        if x == "\n":
            n += 1
            if n == 12:
                break
    return list(ia[:k + 1]) + list(ib[len(ia) + 1:])


def check_c19(mode, ka, kb, at, by, nbase, alone=None, na=0):
    """ka/kb: outcome keys of the base file and of the variant.  Returns (fingerprint, what) or None."""
    if ka[0] != "ok" or kb[0] != "ok":
        if ka[0] == kb[0] and ka[1] == kb[1]:
            return None      # both stop the same way: no verdict to compare (C05's subject)
        return (f"C19:{mode}:verdict:{ka[0]}{ka[1]}|{kb[0]}{kb[1]}", f"{mode}: one of the two files is not analysed to a verdict")
    ea = [tuple(x) for x in ka[2]]
    eb = [tuple(x) for x in kb[2]]
    if mode == "header":
        nhdr = [e for e in ea if e[0] == "INVALID_HEADER"]
        if len(nhdr) != 1:
            return (f"C19:header:count-base:{len(nhdr)}", f"headerless file carries {len(nhdr)} INVALID_HEADER diagnostics")
        if any(e[0] == "INVALID_HEADER" for e in eb):
            return ("C19:header:still-invalid", "file with the standard header still gets INVALID_HEADER")
        exp = shifted([e for e in ea if e[0] != "INVALID_HEADER"], 1, by)
    elif mode == "comment":
        exp = shifted(ea, at, by)
    else:
        exp = list(ea)
        own = set()
        if alone is not None and alone[0] == "ok":
            # diagnostics the appended function gets when it is a file of its own, moved to where it stands in the variant
            own = {(e[0], e[1], e[2] + na - 11 if e[2] is not None else None, e[3]) for e in map(tuple, alone[2]) if e[2] is not None and e[2] >= 13}
        extra = [e for e in eb if e not in exp and e not in own]
        missing = [e for e in exp if e not in eb]
        if extra or missing:
            return (f"C19:append:{'+'.join(sorted({e[0] for e in missing})) or '-'}|{'+'.join(sorted({e[0] for e in extra})) or '-'}",
                    "appending a conforming function changes the existing diagnostics or adds some")
        return None
    if not same_multiset(exp, eb):
        missing = sorted({e[0] for e in exp if e not in eb})
        extra = sorted({e[0] for e in eb if e not in exp})
        return (f"C19:{mode}:{'+'.join(missing) or '-'}|{'+'.join(extra) or '-'}",
                f"{mode} insertion does more than shift the diagnostics (missing {missing}, extra {extra})")
    return None


def replay(case):
    prop = case["prop"]
    oa = P.run_text(case["name"], case["a"])
    ob = P.run_text(case["name"], case["b"])
    ka, kb = outcome_key(oa), outcome_key(ob)
    if prop in ("C17", "C18"):
        viol = []
        if ob.kind == "exc":
            viol.append([f"{prop}:exception:{ob.detail}", "internal exception"])
        if ka != kb:
            feat = "alt-spellings-allowed" if case["name"] == "a11.c" else spelling_feature(case["a"], case["b"])
            viol.append([diff_fp(prop, ka, kb) + ((":" + feat) if prop == "C17" else ""), "diagnostics differ"])
        return dict(digest=dict(same=(ka == kb), key=kb), violations=viol)
    alone, na = None, 0
    if case["mode"] == "append":
        na = case["a"].count("\n")
        alone = outcome_key(P.run_text(case["name"], "".join(alone_items(list(case["a"]), list(case["b"])))))
    res = check_c19(case["mode"], ka, kb, case["at"], case["by"], case["nbase"], alone=alone, na=na)
    return dict(digest=dict(ok=not res), violations=[list(res)] if res else [])
