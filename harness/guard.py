"""C14: include-guard validation follows the file name.  Header base name <b>.h with <b> symbolic over
[a-z0-9_.] (first char [a-z_]); the expected guard symbol comes from an independent oracle (ASCII
upper-casing and '.' -> '_' expressed as z3 definitions over fresh variables); accepted shape and the
guard mutations g1..g8 of DESIGN.md 4.14 run through the real pipeline."""
import time
import z3
from symx import core
from symx.core import Var, SymStr, Explorer
from symx.run import Collector
from harness import families as F, pipeline as P

HNAME = "harness.guard"
SHAPES = ["ok", "g1_other_symbol", "g2_lowercase", "g3_no_define", "g3_other_define", "g4_double", "g5_decl_before",
          "g6_decl_after", "g7_no_guard", "ok_dotted_body2", "g5_decl_before_no_gap", "g5_define_before", "g5_decl_before_no_header",
          "g5_two_decls_before", "g5_decl_after_comment", "g6_decl_after_no_gap", "ok_no_gap_after_header",
          # two guard defects at once ("each independently of the others"): a doubled guard whose FIRST copy is itself defective
          "g34_double_first_no_define", "g14_double_first_other_symbol", "g24_double_first_lowercase", "g344_triple_no_define"]
EXPECT = {"ok": None, "ok_dotted_body2": None, "g1_other_symbol": "HEADER_PROT_NAME", "g2_lowercase": "HEADER_PROT_UPPER",
          "g3_no_define": "HEADER_PROT_NODEF", "g3_other_define": "HEADER_PROT_NODEF", "g4_double": "HEADER_PROT_MULT",
          "g5_decl_before": "HEADER_PROT_ALL", "g6_decl_after": "HEADER_PROT_ALL_AF", "g7_no_guard": "HEADER_PROT_*",
          "g5_decl_before_no_gap": "HEADER_PROT_ALL", "g5_define_before": "HEADER_PROT_ALL", "g5_decl_before_no_header": "HEADER_PROT_ALL",
          "g5_two_decls_before": "HEADER_PROT_ALL", "g5_decl_after_comment": "HEADER_PROT_ALL", "g6_decl_after_no_gap": "HEADER_PROT_ALL_AF",
          "ok_no_gap_after_header": None,
          "g34_double_first_no_define": ("HEADER_PROT_NODEF", "HEADER_PROT_MULT"),
          "g14_double_first_other_symbol": ("HEADER_PROT_NAME", "HEADER_PROT_MULT"),
          "g24_double_first_lowercase": ("HEADER_PROT_UPPER", "HEADER_PROT_MULT"),
          "g344_triple_no_define": ("HEADER_PROT_NODEF", "HEADER_PROT_MULT")}
NAMECH = "abcdefghijklmnopqrstuvwxyz0123456789_."


def chunks(tier):
    out = []
    for n in ((1, 2, 3, 4, 5) if tier == "quick" else (1, 2, 3, 4, 5, 6, 7)):
        for shape in SHAPES:
            for ext in (".h", ".c"):
                out.append(dict(n=n, shape=shape, ext=ext))
    return out


def oracle_guard(ex, bvars, tag="g"):
    """fresh variables G_i defined (in z3) as the upper-cased, dot-replaced base-name characters, then '_H'"""
    out = []
    for i, b in enumerate(bvars):
        g = Var(f"{tag}{i}", map(ord, "ABCDEFGHIJKLMNOPQRSTUVWXYZ0123456789_"))
        ex.solver.add(g.domain_constraint())
        ex.solver.add(g.z == z3.If(z3.And(b.z >= 97, b.z <= 122), b.z - 32, z3.If(b.z == 46, 95, b.z)))
        out.append(g)
    return out + ["_", "H"]


def concrete_guard(base):
    """the same oracle on a concrete name (replay side): ASCII upper-casing, '.' -> '_'"""
    out = ""
    for ch in base:
        if "a" <= ch <= "z":
            out += chr(ord(ch) - 32)
        elif ch == ".":
            out += "_"
        else:
            out += ch
    return out


def build_text(shape, G, G2, hdrname):
    """G: items of the correct guard symbol; G2: items of the wrong/second symbol (or None)"""
    items = []

    def add(x):
        if isinstance(x, str):
            items.extend(x)
        else:
            items.extend(x)
    if shape != "g5_decl_before_no_header":
        for l in F.header_lines(hdrname):
            add(l.default_text() + "\n")
        if shape not in ("g5_decl_before_no_gap", "ok_no_gap_after_header"):
            add("\n")
    proto = "int\tft_fn(int a);\n"
    body = "# include <unistd.h>\n\n" + proto if shape != "ok_dotted_body2" else (
        "# define LIMIT 10\n\ntypedef struct s_pt\n{\n\tint\tx;\n}\tt_pt;\n\n" + "int\tft_fn(t_pt *p);\n")
    if shape == "g7_no_guard":
        add(proto)
        return items
    if shape in ("g5_decl_before", "g5_decl_before_no_gap", "g5_decl_before_no_header"):
        add(proto + "\n")
    if shape == "g5_define_before":
        add("#define LIMIT 10\n\n")
    if shape == "g5_two_decls_before":
        add(proto + "int\tft_gn(int b);\n\n")
    if shape == "g5_decl_after_comment":
        add("/* about */\n" + proto + "\n")
    sym = G2 if shape in ("g1_other_symbol", "g2_lowercase", "g14_double_first_other_symbol", "g24_double_first_lowercase") else G
    add("#ifndef ")
    add(sym)
    add("\n")
    if shape in ("g3_no_define", "g34_double_first_no_define", "g344_triple_no_define"):
        pass
    elif shape == "g3_other_define":
        add("# define ")
        add(G2)
        add("\n")
    else:
        add("# define ")
        add(sym)
        add("\n")
    add("\n" + body + "\n#endif\n")
    if shape == "g4_double":
        add("#ifndef ")
        add(G2)
        add("\n# define ")
        add(G2)
        add("\n#endif\n")
    if shape in ("g34_double_first_no_define", "g14_double_first_other_symbol", "g24_double_first_lowercase"):
        add("#ifndef ")
        add(G)
        add("\n# define ")
        add(G)
        add("\n#endif\n")
    if shape == "g344_triple_no_define":
        for _ in range(2):
            add("#ifndef ")
            add(G)
            add("\n#endif\n")
    if shape == "g6_decl_after":
        add("\n" + "int\tft_gn(int b);\n")
    if shape == "g6_decl_after_no_gap":
        add("int\tft_gn(int b);\n")
    return items


def judge(shape, ext, o):
    v = []
    prot = sorted({e[0] for e in o.errors if e[0].startswith("HEADER_PROT")})
    if o.kind != "ok":
        return [(f"C14:{shape}{ext}:{o.kind}:{o.detail}", f"{shape}{ext}: analysis ends with {o.kind} {o.detail} {o.site}")]
    want = EXPECT[shape]
    if ext == ".c":
        if prot:
            v.append((f"C14:{shape}.c:spurious:{'+'.join(prot)}", f"a .c file gets header-protection diagnostics {prot}"))
        return v
    if want is None:
        if prot:
            v.append((f"C14:{shape}:spurious:{'+'.join(prot)}", f"correctly guarded header gets {prot}"))
    elif want == "HEADER_PROT_*":
        if not prot:
            v.append((f"C14:{shape}:missing:any", "header with declarations but no include guard gets no protection diagnostic"))
    else:
        for w in ((want,) if isinstance(want, str) else want):
            if w not in prot:
                v.append((f"C14:{shape}:missing:{w}", f"{shape}: {w} is not reported (got {prot or 'nothing'})"))
    return v


def run_chunk(chunk, ctx):
    n, shape, ext = chunk["n"], chunk["shape"], chunk["ext"]
    ex = Explorer()
    core.set_run(ex)
    col = Collector(HNAME, seed=ctx["seed"], sample_rate=ctx.get("sample_rate", 0.3))
    b = []
    for i in range(n):
        v = Var(f"b{i}", map(ord, "abcdefghijklmnopqrstuvwxyz_" if i == 0 else NAMECH))
        ex.solver.add(v.domain_constraint())
        b.append(v)
    # no trailing dot, no double dot (such names give "__"/"_" oddities that are still valid; keep them in)
    G = oracle_guard(ex, b)
    G2 = None
    if shape in ("g1_other_symbol", "g3_other_define", "g4_double", "g14_double_first_other_symbol"):
        G2 = []
        for i in range(n):
            v = Var(f"w{i}", map(ord, "ABCDEFGHIJKLMNOPQRSTUVWXYZ_" if i == 0 else "ABCDEFGHIJKLMNOPQRSTUVWXYZ0123456789_"))
            ex.solver.add(v.domain_constraint())
            G2.append(v)
        ex.solver.add(z3.Or([w.z != g.z for w, g in zip(G2, G[:n])]))
        G2 = G2 + ["_", "H"]
    elif shape in ("g2_lowercase", "g24_double_first_lowercase"):
        G2 = []
        diffs = []
        for i in range(n):
            v = Var(f"w{i}", map(ord, "ABCDEFGHIJKLMNOPQRSTUVWXYZabcdefghijklmnopqrstuvwxyz0123456789_"))
            ex.solver.add(v.domain_constraint())
            g = G[i]
            ex.solver.add(z3.Or(v.z == g.z, z3.And(g.z >= 65, g.z <= 90, v.z == g.z + 32)))
            diffs.append(v.z != g.z)
            G2.append(v)
        # at least one letter lower-cased (the trailing H may be the one)
        hv = Var("wh", map(ord, "Hh"))
        ex.solver.add(hv.domain_constraint())
        ex.solver.add(z3.Or(diffs + [hv.z == ord("h")]))
        G2 = G2 + ["_", hv]
    name_items = b + list(ext)
    items = build_text(shape, G, G2, "hdr" + ext)
    cur = {}

    def case_of(m):
        return dict(name=SymStr(name_items).concretize(m), text=SymStr(items).concretize(m), shape=shape, ext=ext)

    def body():
        cur.clear()
        o = P.run_text(SymStr(name_items), SymStr(items))
        viol = judge(shape, ext, o)
        for fp, what in viol:
            col.violation(fp, what, case_of(ex.model()))
            cur["viol"] = True
        return dict(kind=o.kind)

    def on_path(res, status):
        if status == "gap":
            col.gap(str(res)[:100])
        elif status == "timeout":
            col.count("slow_paths_not_analysed")
        elif status == "ok" and not cur.get("viol") and col.want_witness():
            col.add_witness(case_of(ex.model()), dict(ok=True))

    ex.explore(body, on_path=on_path, max_time=max(1.0, min(ctx.get("chunk_time", 60), ctx["deadline"] - time.time())), path_alarm=15.0)
    res = col.finish()
    res["stats"] = ex.stats()
    return res


def replay(case):
    o = P.run_text(case["name"], case["text"])
    viol = judge(case["shape"], case["ext"], o)
    return dict(digest=dict(ok=not viol), violations=[list(v) for v in viol])
