"""C04: exit status and verdict lines of the real norminette.__main__.main() for every sequence of file
classes {clean, notice-only, erroneous, fatal}, n = 0..4, explicit paths / directory argument / the
same file twice.  The per-file analysis is a nondeterministic stub constrained only by its contract
(fills file.errors with 0..2 diagnostics of symbolic level, or raises CParsingError); everything else
(argparse, file loop, fatal path, formatters, Errors.status, sys.exit) is the real code."""
import io
import os
import sys
import json
import time
import shutil
import tempfile
import contextlib
import subprocess
import z3
from symx import core
from symx.core import Var, Explorer, declare, k_in, _b
from symx.run import Collector

HNAME = "harness.cli"
CLASSES = ("clean", "notice", "error", "fatal")


class SymLevel:
    """'Error' | 'Notice' chosen by the solver"""

    def __init__(self, v):
        self.v = v

    def __eq__(s, o):
        if isinstance(o, str):
            return _b(k_in(s.v, ({"Error": 0, "Notice": 1}.get(o, 9),)))
        return False

    def __ne__(s, o):
        return not s.__eq__(o)

    def __hash__(s):
        return hash(s.conc())

    def conc(s):
        return "Error" if _b(k_in(s.v, (0,))) else "Notice"

    def __format__(s, spec):
        return format(s.conc(), spec)

    def __str__(s):
        return s.conc()


def chunks(tier, nmax):
    out = []
    for n in range(0, nmax + 1):
        for fmt in ("humanized", "json"):
            for how in (("paths", "dir", "twice") if n else ("dir",)):
                if how == "twice" and n < 2:
                    continue
                out.append(dict(n=n, fmt=fmt, how=how))
    return out


def parse_output(fmt, text, names):
    """-> {basename: [statuses]} from stdout"""
    res = {b: [] for b in names}
    if fmt == "json":
        for line in text.splitlines():
            line = line.strip()
            if line.startswith("{"):
                try:
                    data = json.loads(line)
                except ValueError:
                    continue
                for f in data.get("files", []):
                    b = os.path.basename(f["path"])
                    res.setdefault(b, []).append("OK!" if f["status"] == "OK" else "Error!")
            else:
                for b in names:
                    if line.endswith(b + ": Error!") or line == b + ": Error!":
                        res[b].append("Error!")
        return res
    for line in text.splitlines():
        for b in names:
            for v in ("OK!", "Error!"):
                if line == f"{b}: {v}" or line.endswith("/" + f"{b}: {v}"):
                    res[b].append(v)
    return res


def judge(classes, names, code, exc, out_text, fmt):
    """classes/names: every selected file (mention) in processing order. Returns [(fingerprint, what)]"""
    v = []
    vec = ",".join(classes)
    shape = _shape(classes)
    if exc:
        v.append((f"C04:exception:{exc}:{'empty' if not classes else 'nonempty'}", f"main() dies with {exc} for file classes [{vec}]"))
        return v
    want_zero = all(c in ("clean", "notice") for c in classes)
    if (code in (0, None)) != want_zero:
        v.append((f"C04:exit:{'zero' if code in (0, None) else 'nonzero'}-for:{shape}",
                  f"exit status {code} for file classes [{vec}]"))
    lines = parse_output(fmt, out_text, set(names))
    want = {}
    for b, c in zip(names, classes):
        want.setdefault(b, []).append("OK!" if c in ("clean", "notice") else "Error!")
    for b, ws in want.items():
        got = lines.get(b, [])
        if len(got) != len(ws):
            v.append((f"C04:verdict-count:{shape}", f"{len(got)} verdict line(s) for a file mentioned {len(ws)} time(s); classes [{vec}]"))
            break
        if sorted(got) != sorted(ws):
            v.append((f"C04:verdict-wrong:{shape}", f"verdict {got} but classes [{vec}]"))
            break
    return v


def _shape(truth):
    """coarse shape of a class vector: which classes occur, whether a fatal file is last, whether the last is OK"""
    s = []
    if "fatal" in truth:
        s.append("fatal-last" if truth.index("fatal") == len(truth) - 1 else "fatal-before-others")
    if "notice" in truth:
        s.append("notice")
    if "error" in truth:
        s.append("error")
    if truth:
        s.append("last=" + truth[-1])
    else:
        s.append("empty")
    return "+".join(s)


def run_chunk(chunk, ctx):
    n, fmt, how = chunk["n"], chunk["fmt"], chunk["how"]
    import norminette.__main__ as M
    from norminette.errors import Error, Highlight
    from norminette.exceptions import CParsingError
    ex = Explorer()
    core.set_run(ex)
    fatal = [declare(Var(f"fatal{i}", (0, 1))) for i in range(n)]
    nerr = [declare(Var(f"n{i}", (0, 1, 2))) for i in range(n)]
    lev = [[declare(Var(f"lv{i}_{j}", (0, 1))) for j in range(2)] for i in range(n)]
    tmp = tempfile.mkdtemp(prefix="nverif-")
    names = [f"f{i}.c" for i in range(n)]
    if how == "twice":
        names[1] = names[0]
        # the same file mentioned twice has the same content: same class both times
        ex.solver.add(fatal[1].z == fatal[0].z, nerr[1].z == nerr[0].z, lev[1][0].z == lev[0][0].z, lev[1][1].z == lev[0][1].z)
    paths = []
    for b in names:
        p = os.path.join(tmp, b)
        open(p, "w").write("")
        paths.append(p)
    state = {}
    col = Collector(HNAME, seed=ctx["seed"], sample_rate=ctx.get("sample_rate", 0.2))

    class StubLexer:
        def __init__(self, file):
            self.file = file

        def __iter__(self):
            return iter(())

    class StubRegistry:
        def run(self, context):
            i = state["k"]
            state["k"] += 1
            state["order"].append(os.path.basename(context.file.path))
            c, levels = classify(i)
            state["truth"].append(c)
            if c == "fatal":
                raise CParsingError("Error: Unrecognized line (stub)")
            # the two ways the real analysis hands a diagnostic over: a pre-built Error (the lexer) or through the Context
            # helpers (the rules); solver-chosen once per run
            route = state.get("route")
            for j, l in enumerate(levels):
                if route == 1:
                    from norminette.lexer.tokens import Token
                    tok = Token("IDENTIFIER", (1 + j, 1), "x")
                    (context.new_error if l == "Error" else context.new_warning)("TOO_MANY_LINES", tok)
                else:
                    context.file.errors.add(Error("TOO_MANY_LINES", "Function has more than 25 lines", level=l,
                                                  highlights=[Highlight(1 + j, 1)]))

    def classify(i):
        """solver-chosen class of file i (forks); the diagnostics' levels stay symbolic objects"""
        if i >= n:
            return "clean", []
        if _b(k_in(fatal[i], (1,))):
            return "fatal", []
        k = 0 if _b(k_in(nerr[i], (0,))) else (1 if _b(k_in(nerr[i], (1,))) else 2)
        # levels are decided by the solver (one fork each) and handed over as plain strings, because the JSON
        # formatter serialises them in C (json.dumps / dataclasses.asdict cannot take a proxy)
        levels = [SymLevel(lev[i][j]).conc() for j in range(k)]
        anyerr = "Error" in levels
        return ("error" if anyerr else ("notice" if k else "clean")), levels

    saved = (M.Lexer, M.Registry)
    M.Lexer, M.Registry = StubLexer, StubRegistry
    cur = {}

    def body():
        cur.clear()
        state.update(truth=[], k=0, order=[], route=(core.choose("route", 2) if n else 0))
        out = io.StringIO()
        code = None
        exc = None
        old_argv, old_cwd = sys.argv, os.getcwd()
        args = ["norminette", "--no-colors", "-f", fmt]
        if how == "dir":
            if n == 0:
                os.chdir(tmp)
            else:
                args.append(tmp)
        else:
            args += paths
        sys.argv = args
        try:
            with contextlib.redirect_stdout(out), contextlib.redirect_stderr(io.StringIO()):
                try:
                    M.main()
                except SystemExit as e:
                    code = e.code
                except Exception as e:
                    exc = type(e).__name__
        finally:
            sys.argv = old_argv
            os.chdir(old_cwd)
        truth = list(state["truth"])
        order = list(state["order"])
        rest = [b for b in names if b not in order] if how != "twice" else names[len(order):]
        for k in range(len(truth), n):        # selected but never processed (after a fatal file): still part of the run
            truth.append(classify(k)[0])
        order = order + rest[:n - len(order)]
        viol = judge(truth, order, code, exc, out.getvalue(), fmt)
        for fp, what in viol:
            col.violation(fp, what, dict(classes=truth, fmt=fmt, how=how))
            cur["viol"] = True
        return dict(truth=truth, code=code, exc=exc)

    def on_path(res, status):
        if status == "gap":
            col.gap(str(res)[:100])
        elif status == "ok" and not cur.get("viol") and col.want_witness():
            col.add_witness(dict(classes=res["truth"], fmt=fmt, how=how), dict(ok=True))

    try:
        ex.explore(body, on_path=on_path, max_time=max(1.0, ctx["deadline"] - time.time()), path_alarm=10.0)
    finally:
        M.Lexer, M.Registry = saved
        shutil.rmtree(tmp, ignore_errors=True)
    res = col.finish(limit=60)
    res["stats"] = ex.stats()
    return res


# ---------------------------------------------------------------------------------------------- native replay (real CLI)
CLEAN_BODY = "\nint\tmain(void)\n{\n\treturn (0);\n}\n"
# a notice-only file exists in two kinds: the notice comes from a rule (Context.new_warning) or from the lexer (a pre-built
# Error handed to Errors.add); the stubbed analysis stands for both, so a counterexample is replayed on both
NOTICE_VARIANTS = ["\nstatic int\tg_x = 0;\n" + CLEAN_BODY,
                   "\nint\tmain(void)\n{\n\tchar\tc;\n\n\tc = '\\q';\n\treturn (c);\n}\n"]
SAMPLES = {
    "clean": CLEAN_BODY,
    "notice": NOTICE_VARIANTS[0],
    "error": "\nint\tmain(void)\n{\n\treturn 0;\n}\n",
    "fatal": "\nint\tmain(void)\n{\n\treturn (0);\n}\n\n] ] ]\n",
}


def replay(case):
    if "notice" not in case["classes"]:
        return replay_variant(case, 0)
    out = None
    for k in range(len(NOTICE_VARIANTS)):
        r = replay_variant(case, k)
        if out is None or (r["violations"] and not out["violations"]):
            out = r
    return out


def replay_variant(case, notice_variant):
    from harness.families import HEADER_TMPL
    samples = dict(SAMPLES, notice=NOTICE_VARIANTS[notice_variant])
    classes, fmt, how = case["classes"], case["fmt"], case["how"]
    tmp = tempfile.mkdtemp(prefix="nverif-")
    try:
        # `classes` is in PROCESSING order.  For a directory argument the processing order is the tool's own glob
        # order, so create the files first, ask glob for the order, then give the k-th processed file class k.
        names = [f"f{i}.c" for i in range(len(classes))]
        if how == "twice" and len(names) > 1:
            names[1] = names[0]
            classes = list(classes)
            classes[1] = classes[0]
        for b in set(names):
            open(os.path.join(tmp, b), "w").write("")
        order = list(names)
        if how == "dir":
            import glob
            order = [os.path.basename(p) for p in glob.glob(tmp + "/**/*.[ch]", recursive=True)]
        for b, c in zip(order, classes):
            open(os.path.join(tmp, b), "w").write(HEADER_TMPL.format(file=b) + "\n" + samples[c])
        paths = [os.path.join(tmp, b) for b in names]
        args = ["/venv/bin/python", "-m", "norminette", "--no-colors", "-f", fmt]
        cwd = tmp
        if how == "dir":
            if classes:
                args.append(tmp)
        else:
            args += paths
        env = dict(os.environ, PYTHONPATH=__import__("symx").REPO, PYTHONDONTWRITEBYTECODE="1")
        r = subprocess.run(args, cwd=cwd, capture_output=True, text=True, timeout=60, env=env)
        exc = None
        if "Traceback (most recent call last)" in r.stderr:
            exc = r.stderr.strip().splitlines()[-1].split(":")[0]
        truth = list(classes)
        viol = judge(truth, order, r.returncode, exc, r.stdout, fmt)
        return dict(digest=dict(ok=not viol), violations=[list(x) for x in viol])
    finally:
        shutil.rmtree(tmp, ignore_errors=True)
