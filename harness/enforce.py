"""C02: every enforced Norm violation is reported on its line.  Program instance x operator of the
catalogue (harness/violations.py) x solver-chosen site; identifier slots stay symbolic; the real
pipeline runs on the edited text.  Assertion: a diagnostic with an accepted code on the edited line, and
the file's status is Error."""
import time
from symx import core
from symx.core import SymStr, Explorer, choose
from symx.poly import conc
from symx.run import Collector
from harness import families as F, pipeline as P, violations as V

HNAME = "harness.enforce"
IDK = ("id", "fname", "macro", "path", "idnp")


def chunks(tier, n):
    out = []
    for seed in range(n):
        kind = "h" if seed % 5 == 4 else "c"
        for name in sorted(V.OPS):
            out.append(dict(seed=seed, kind=kind, op=name))
    return out


def judge(o, lines, codes, opname, hint):
    codes = set(codes)
    if o.kind == "exc":
        return []          # internal errors are C05's subject
    if o.kind == "fatal":
        return [(f"C02:{opname}:fatal:{hint}", f"violation {opname} ({hint}) ends in a fatal parse error instead of the diagnostic {sorted(codes)}")]
    hit = [e for e in o.errors if e[0] in codes and conc(e[2]) in lines]
    if not hit:
        # (the same code reported on ANOTHER line - an unrelated finding elsewhere in the file - does not count and does not
        # change the identity of the miss: one fingerprint per operator and kind of site)
        same_code = sorted({e[0] for e in o.errors if e[0] in codes})
        return [(f"C02:{opname}:missing:{hint}", f"violation {opname} ({hint}) is not reported: none of {sorted(codes)} on line {lines}"
                 + (f" (the code appears on other lines only)" if same_code else ""))]
    if not any(e[1] == "Error" for e in o.errors):
        return [(f"C02:{opname}:not-error:{hint}", "the file is not Error!")]
    return []


def run_chunk(chunk, ctx):
    prog = F.program(chunk["seed"], ctx["tier"], chunk["kind"])
    opname = chunk["op"]
    cands = V.candidates(prog, opname)
    col = Collector(HNAME, seed=ctx["seed"], sample_rate=ctx.get("sample_rate", 0.1))
    if not cands:
        return dict(stats=dict(paths=0, exhaustive=True), validated=0, confirmed=[], unconfirmed=[], n_mismatch=0, mismatches=[],
                    samples=[], gaps={}, counters={"not_applicable": 1}, notes={})
    ex = Explorer()
    core.set_run(ex)
    cur = {}
    bound = {}

    def items_of(q):
        out = []
        for l in q.lines:
            for p in l.parts:
                if isinstance(p, str):
                    out += list(p)
                elif p.kind in IDK or p.kind.startswith("pid:"):
                    if p.id not in bound:
                        n0 = len(ex.solver.assertions())
                        vs = p.bind(ex, "", narrow_first=True)
                        bound[p.id] = (vs, list(ex.solver.assertions())[n0:])
                    else:
                        ex.solver.add(*bound[p.id][1])
                    out += bound[p.id][0]
                else:
                    out += list(p.default)
            out.append("\n")
        return out

    def body():
        cur.clear()
        k = choose("site", len(cands)) if len(cands) > 1 else 0
        q, lines, codes, hint = cands[k]
        items = items_of(q)
        cur["items"] = items
        o = P.run_text(q.name, SymStr(items))
        viol = judge(o, lines, codes, opname, hint)
        for fp, what in viol:
            col.violation(fp, what, dict(name=q.name, text=SymStr(items).concretize(ex.model()), lines=lines, codes=sorted(codes), op=opname, hint=hint))
            cur["viol"] = True
        return dict(k=k, lines=lines, codes=sorted(codes), hint=hint, name=q.name)

    def on_path(res, status):
        if status == "gap":
            col.gap(str(res)[:100])
        elif status == "timeout":
            col.count("slow_paths_not_analysed")
        elif status == "ok" and not cur.get("viol") and col.want_witness():
            col.add_witness(dict(name=res["name"], text=SymStr(cur["items"]).concretize(ex.model()), lines=res["lines"], codes=res["codes"],
                                 op=opname, hint=res["hint"]), dict(ok=True))
    ex.explore(body, on_path=on_path, max_time=max(1.0, min(ctx.get("chunk_time", 30), ctx["deadline"] - time.time())), path_alarm=15.0, max_paths=ctx.get("max_paths"))
    res = col.finish()
    res["stats"] = ex.stats()
    res["counters"]["candidates"] = len(cands)
    return res


def replay(case):
    o = P.run_text(case["name"], case["text"])
    viol = judge(o, case["lines"], case["codes"], case["op"], case["hint"])
    return dict(digest=dict(ok=not viol), violations=[list(v) for v in viol])
