"""C01: every member of the conforming family is accepted (no Error-level diagnostic, no fatal error).

Per program instance (shape from the seeded generator) the identifier / constant / literal slots and a
rotating subset of operator slots are symbolic; the whole real pipeline runs on the symbolic text and
the assertion is checked on every path class."""
import time
from symx import core
from symx.core import SymStr, Explorer
from symx.poly import conc
from symx.run import Collector
from harness import families as F, pipeline as P

HNAME = "harness.conform"
OPKINDS = ("binop1", "binop2", "unop1", "incdec", "assign2")


COMMENT_FORMS = ("block", "multi", "line")
BODY_KINDS = ("func_open", "decl", "blank_decl", "stmt", "ctrl", "lbrace", "rbrace", "cont", "func_close")


def comment_bases(tier):
    """programs that receive a comment line at every boundary outside a function body"""
    out = [("maxi", i) for i in range(len(F.maximal_programs()))]
    out += [("gen", (s, "h")) for s in ((3, 7) if tier == "quick" else (3, 7, 11, 15, 19))]
    out += [("gen", (s, "c")) for s in ((1,) if tier == "quick" else (1, 2, 5))]
    return out


def comment_base(tier, key):
    kind, arg = key
    if kind == "maxi":
        return F.maximal_programs()[arg]
    return F.program(arg[0], tier, arg[1])


def comment_boundaries(prog):
    """line indices i such that a comment line may be put in front of line i (or at the end): everywhere after the 42 header
    except strictly inside a function body -- that includes between a signature and its '{', inside type blocks, between
    prototypes, before #endif"""
    out = []
    n = len(prog.lines)
    for i in range(12, n + 1):
        prev = prog.lines[i - 1]
        cur = prog.lines[i] if i < n else None
        inside = prev.kind in BODY_KINDS[:-1] and prev.func is not None and cur is not None and cur.kind in BODY_KINDS[1:] and cur.func is not None
        if not inside and prev.kind != "header":
            out.append(i)
    return out


def commented(prog, b, form, slot=None):
    slot = slot or F.Slot("comment", "note")
    if form == "block":
        line = F.Line(["/* ", slot, " */"], "comment")
    elif form == "line":
        line = F.Line(["// ", slot], "comment")
    else:
        line = F.Line(["/*\n** ", slot, "\n*/"], "comment")          # ONE statement over three physical lines
    q = prog.clone()
    q.lines = q.lines[:b] + [line] + q.lines[b:]
    return q, slot


def chunks(tier, n, kinds=("c", "c", "c", "h")):
    out = [dict(maxi=i) for i in range(len(F.maximal_programs()))]
    out += [dict(commented=list(k) if k[0] == "maxi" else [k[0], list(k[1])], form=f) for k in comment_bases(tier) for f in COMMENT_FORMS]
    out += [dict(micro=i) for i in range(len(F.micro_programs()))]
    return out + [dict(seed=i, kind=kinds[i % len(kinds)], rot=i // len(kinds) % 3) for i in range(n)]


_TYPEKW = {"INT", "CHAR", "LONG", "SHORT", "FLOAT", "DOUBLE", "VOID", "UNSIGNED", "SIGNED"}


def _norm(t):
    return "TYPE" if t in _TYPEKW else t


def token_window(tokens, line, col):
    """previous significant token, flagged token, next significant token (blanks skipped, type keywords
    normalised): specific enough to tell rule sites apart, coarse enough to be stable across instances"""
    if tokens is None:
        return "?"
    idx = None
    for i, t in enumerate(tokens):
        if t.pos[0] == line and t.pos[1] == col:
            idx = i
            break
    if idx is None:
        return "?"
    a = idx - 1
    while a >= 0 and tokens[a].type in ("SPACE", "TAB"):
        a -= 1
    b = idx + 1
    while b < len(tokens) and tokens[b].type in ("SPACE", "TAB"):
        b += 1
    return ",".join([_norm(tokens[a].type) if a >= 0 else "-", _norm(tokens[idx].type),
                     _norm(tokens[b].type) if b < len(tokens) else "-"])


def violations(o, prop="C01"):
    """fingerprints of everything that makes a conforming file 'not accepted'"""
    out = []
    if o.kind == "fatal":
        out.append((f"{prop}:fatal:CParsingError", "conforming file stops with a fatal parse error"))
    elif o.kind == "exc":
        out.append((f"{prop}:exception:{o.detail}:{o.site}", f"conforming file raises {o.detail} at {o.site}"))
    seen = set()
    for name, level, line, col in o.errors:
        if level != "Error":
            continue
        line, col = conc(line), conc(col)
        fp = f"{prop}:{name}:{token_window(o.tokens, line, col)}"
        if fp not in seen:
            seen.add(fp)
            out.append((fp, f"conforming file gets {name} (tokens around it: {token_window(o.tokens, line, col)})"))
    return out


def pick_symbolic(prog, rot, max_ops=3, max_str=2, max_full=2):
    """which slots are symbolic in this instance: every identifier / numeric / char slot; a rotating window
    of <= max_ops operator slots and <= max_str string slots; <= max_full identifiers with the full
    first-character class (the others avoid l/u/L/U, see Slot.bind)"""
    slots = prog.slots()
    chosen, full = set(), set()

    def window(group, k):
        if not group:
            return []
        start = (rot * k) % len(group)
        return [group[(start + i) % len(group)] for i in range(min(k, len(group)))]
    for s in slots:
        if s.kind not in OPKINDS and s.kind != "str":
            chosen.add(s.id)
    for s in window([s for s in slots if s.kind in OPKINDS], max_ops):
        chosen.add(s.id)
    for s in window([s for s in slots if s.kind == "str"], max_str):
        chosen.add(s.id)
    for s in window([s for s in slots if s.kind in ("id", "fname", "macro", "path")], max_full):
        full.add(s.id)
    return chosen, full


def c07_invariants(prog, o):
    """C07 on a conforming program: the statements tile the stream (checked by edits.c07_violations), each starts
    at column 1 and ends at a line end, there is one statement per generated line, and the scope is back at file
    level after each function"""
    from harness.edits import c07_violations
    v = list(c07_violations(o))
    if o.kind != "ok":
        return v           # acceptance is C01's subject
    stmt_lines = [l for l in prog.lines if l.kind != "cont"]        # continuation lines belong to the statement above
    if len(o.segments) != len(stmt_lines):
        v.append(("C07:statement-count", f"{len(o.segments)} statements recognised in a file of {len(stmt_lines)} statements"))
    for k, (col, last, scope, lvl, rule, ln) in enumerate(o.seginfo):
        if col is not None and not (col == 1):
            v.append((f"C07:statement-not-at-line-start:{rule}", f"statement {rule} starts at column {col}"))
            break
        if last != "NEWLINE":
            v.append((f"C07:statement-not-ending-at-eol:{rule}", f"statement {rule} ends with {last}"))
            break
    if len(o.seginfo) == len(stmt_lines):
        for l, si in zip(stmt_lines, o.seginfo):
            if l.kind == "func_close" and not (si[2] == "GlobalScope" and si[3] == 0):
                v.append(("C07:scope-not-global-after-function", f"after the closing brace of a function the scope is {si[2]} (level {si[3]})"))
                break
            if l.kind in ("stmt", "decl", "ctrl") and si[2] == "GlobalScope":
                v.append((f"C07:scope-global-inside-function:{l.kind}", "a statement inside a function is processed at file scope"))
                break
    return v


# operators whose variants keep the line structure of the functions (a func_close line is still the closing brace of its
# function): used for the scope-depth invariant on VIOLATING programs
STRUCT_OPS = ["50_statement_after_control", "51_two_statements_on_a_line", "41_for_loop", "45_ternary", "46_assignment_in_condition",
              "48_return_without_parentheses", "04_extra_indent_tab", "05_missing_indent_tab", "38_statement_after_brace",
              "37_brace_on_signature_line", "24_declaration_in_block", "43_goto", "44_label", "42_switch", "64_comment_in_function",
              "08_empty_line_in_function", "22_two_declarations_on_a_line", "74_directive_in_function", "80_struct_in_function"]


def violating_chunks(tier):
    out = []
    seeds = (1, 2, 5, 6, 9, 10) if tier == "quick" else range(1, 60)
    for sd in seeds:
        for op in STRUCT_OPS:
            out.append(dict(violating=op, seed=sd, kind="c"))
    for mi in range(len(F.maximal_programs())):
        for op in STRUCT_OPS:
            out.append(dict(violating=op, maxi=mi, seed=mi, kind="c"))
    return out


def depth_invariants(prog, o):
    """C07 on a VIOLATING program (one catalogue violation): the statements tile the token stream, and the scope is back at
    file level right after the closing brace of every function and at the end of the file (known by construction: the
    operators keep the function structure)"""
    from harness.edits import c07_violations
    v = list(c07_violations(o))
    if o.kind != "ok" or not o.seginfo:
        return v
    # line (1-based) of every function's closing brace: the statement recognised there (the block end) must leave the
    # analysis at file level (the monitor records the scope AFTER Context.update())
    closes = {i + 1 for i, l in enumerate(prog.lines) if l.kind == "func_close"}
    for (col, last, scope, lvl, rule, ln) in o.seginfo:
        if ln in closes and not (scope == "GlobalScope" and lvl == 0):
            v.append((f"C07:depth-not-zero-after-function:{rule}", f"after the closing brace of a function (line {ln}) the scope is {scope} (level {lvl})"))
            break
    return v


def run_violating(chunk, ctx):
    from harness import violations as V
    ex = Explorer()
    core.set_run(ex)
    base = F.maximal_programs()[chunk["maxi"]] if "maxi" in chunk else F.program(chunk["seed"], ctx["tier"], chunk["kind"])
    cands = V.candidates(base, chunk["violating"]) if not base.name.endswith(".h") else []
    col = Collector(HNAME, seed=ctx["seed"], sample_rate=ctx.get("sample_rate", 0.1))
    if not cands:
        return dict(stats=dict(paths=0, exhaustive=True), validated=0, confirmed=[], unconfirmed=[], n_mismatch=0, mismatches=[],
                    samples=[], gaps={}, counters={"not_applicable": 1}, notes={})
    cur = {}

    def body():
        cur.clear()
        k = core.choose("site", len(cands)) if len(cands) > 1 else 0
        q = cands[k][0]
        text = q.default_text()
        cur["case"] = dict(name=q.name, text=text, c07v=dict(chunk, tier=ctx["tier"], site=k))
        o = P.run_text(q.name, text, monitor=True)
        vs = depth_invariants(q, o)
        hint = cands[k][3]
        nxt = ""
        ln = cands[k][1][0]
        if ln < len(q.lines):
            nl = q.lines[ln]
            nxt = "+next:" + str(nl.meta.get("kw") or nl.meta.get("stmt") or nl.kind)
        cur["case"]["suffix"] = f":{chunk['violating']}:{hint}{nxt}"
        for fp, what in vs:
            col.violation(fp + cur["case"]["suffix"], what + f" (violating variant {chunk['violating']}, {hint}{nxt})", cur["case"])
            cur["viol"] = True
        return dict(kind=o.kind, errors=[list(e) for e in o.errors])

    def on_path(res, status):
        if status == "gap":
            col.gap(str(res)[:100])
        elif status == "timeout":
            col.count("slow_paths_not_analysed")
        elif status == "ok" and not cur.get("viol") and col.want_witness():
            col.add_witness(cur["case"], conc(res))
    ex.explore(body, on_path=on_path, max_time=max(1.0, min(ctx.get("chunk_time", 60), ctx["deadline"] - time.time())), path_alarm=10.0)
    res = col.finish()
    res["stats"] = ex.stats()
    return res


def run_chunk(chunk, ctx):
    if "commented" in chunk:
        return run_commented(chunk, ctx)
    if "violating" in chunk:
        return run_violating(chunk, ctx)
    ex = Explorer()
    core.set_run(ex)
    c07 = ctx.get("prop") == "C07"
    if "maxi" in chunk:
        prog = F.maximal_programs()[chunk["maxi"]]
        sym, full = pick_symbolic(prog, 0, 0, 0, 1)
    elif "micro" in chunk:
        prog = F.micro_programs()[chunk["micro"]]
        sym, full = pick_symbolic(prog, 0, 99, 99, 1)
    else:
        prog = F.program(chunk["seed"], ctx["tier"], chunk["kind"])
        sym, full = pick_symbolic(prog, chunk["rot"], ctx.get("max_ops", 3))
    items, bound = prog.items(sym, ex, tag="", full_first=full)
    col = Collector(HNAME, seed=ctx["seed"], sample_rate=ctx.get("sample_rate", 0.1))
    cur = {}

    def body():
        cur.clear()
        o = P.run_text(prog.name, SymStr(items), keep_tokens=not c07, monitor=c07)
        vs = c07_invariants(prog, o) if c07 else violations(o)
        if vs:
            m = ex.model()
            text = SymStr(items).concretize(m)
            for fp, what in vs:
                col.violation(fp, what, dict(name=prog.name, text=text, c07=dict(chunk, tier=ctx["tier"]) if c07 else None))
            cur["viol"] = True
        return dict(kind=o.kind, errors=[list(e) for e in o.errors])

    def on_path(res, status):
        if status == "gap":
            col.gap(str(res)[:100])
        elif status == "timeout":
            from symx.native import hang_site
            m = ex.model()
            col.violation("hang::" + hang_site(res.__traceback__), "conforming file makes the analysis hang",
                          dict(name=prog.name, text=SymStr(items).concretize(m)))
        elif status == "ok" and not cur.get("viol") and col.want_witness():
            m = ex.model()
            col.add_witness(dict(name=prog.name, text=SymStr(items).concretize(m), c07=dict(chunk, tier=ctx["tier"]) if c07 else None), conc(res, m))

    left = max(1.0, min(ctx.get("chunk_time", 120), ctx["deadline"] - time.time()))
    ex.explore(body, on_path=on_path, max_time=left, path_alarm=10.0, max_paths=ctx.get("max_paths"))
    res = col.finish()
    res["stats"] = ex.stats()
    res["counters"]["symbolic_slots"] = len(sym)
    res["counters"]["symbolic_chars"] = sum(1 for x in items if not isinstance(x, str))
    return res


def _ckey(chunk):
    k = chunk["commented"]
    return (k[0], k[1] if k[0] == "maxi" else tuple(k[1]))


def run_commented(chunk, ctx):
    """a comment line (one of three forms, symbolic text) at a solver-chosen boundary outside the function bodies of a
    conforming program: the file stays accepted (C01) and the statement / scope invariants hold (C07)"""
    ex = Explorer()
    core.set_run(ex)
    c07 = ctx.get("prop") == "C07"
    base = comment_base(ctx["tier"], _ckey(chunk))
    bs = comment_boundaries(base)
    slot = F.Slot("comment", "note"[: 1 + len(bs) % 4])
    col = Collector(HNAME, seed=ctx["seed"], sample_rate=ctx.get("sample_rate", 0.1))
    cur = {}
    bound = {}

    def body():
        cur.clear()
        b = bs[core.choose("boundary", len(bs))] if len(bs) > 1 else bs[0]
        prog, _ = commented(base, b, chunk["form"], slot)
        if "cons" not in bound:
            n0 = len(ex.solver.assertions())
            bound["vars"] = slot.bind(ex, "c")
            bound["cons"] = list(ex.solver.assertions())[n0:]
        else:
            ex.solver.add(*bound["cons"])
        items = []
        for l in prog.lines:
            for q in l.parts:
                items += (list(q) if isinstance(q, str) else (bound["vars"] if q is slot else list(q.default)))
            items.append("\n")
        cur["items"] = items
        meta = dict(chunk, tier=ctx["tier"], boundary=b)
        cur["meta"] = meta
        o = P.run_text(prog.name, SymStr(items), keep_tokens=not c07, monitor=c07)
        vs = c07_invariants(prog, o) if c07 else violations(o)
        if vs:
            text = SymStr(items).concretize(ex.model())
            # C07 invariants are about the comment statement itself: the form is part of the fingerprint; a C01 diagnostic is
            # identified by its token window as everywhere else (the same false positive with or without a comment nearby)
            suffix = (":comment-" + chunk["form"]) if c07 else ""
            for fp, what in vs:
                col.violation(fp + suffix, what + f" (comment line, form {chunk['form']}, in front of line {b + 1})",
                              dict(name=prog.name, text=text, c07=meta if c07 else None, suffix=suffix))
            cur["viol"] = True
        return dict(kind=o.kind, errors=[list(e) for e in o.errors])

    def on_path(res, status):
        if status == "gap":
            col.gap(str(res)[:100])
        elif status == "timeout":
            col.count("slow_paths_not_analysed")
        elif status == "ok" and not cur.get("viol") and col.want_witness():
            col.add_witness(dict(name=base.name, text=SymStr(cur["items"]).concretize(ex.model()), c07=cur["meta"] if c07 else None), conc(res, ex.model()))
    left = max(1.0, min(ctx.get("chunk_time", 120), ctx["deadline"] - time.time()))
    ex.explore(body, on_path=on_path, max_time=left, path_alarm=10.0)
    res = col.finish()
    res["stats"] = ex.stats()
    return res


def replay(case):
    suffix = case.get("suffix", "")
    if case.get("c07v"):
        from harness import violations as V
        ch = case["c07v"]
        base = F.maximal_programs()[ch["maxi"]] if "maxi" in ch else F.program(ch["seed"], ch["tier"], ch["kind"])
        q = V.candidates(base, ch["violating"])[ch["site"]][0]
        o = P.run_text(case["name"], case["text"], monitor=True)
        return dict(digest=dict(kind=o.kind, errors=[list(e) for e in o.errors]), violations=[[v[0] + case.get("suffix", ""), v[1]] for v in depth_invariants(q, o)])
    if case.get("c07") and "commented" in case["c07"]:
        ch = case["c07"]
        prog, _ = commented(comment_base(ch["tier"], _ckey(ch)), ch["boundary"], ch["form"])
        o = P.run_text(case["name"], case["text"], monitor=True)
        return dict(digest=dict(kind=o.kind, errors=[list(e) for e in o.errors]), violations=[[v[0] + suffix, v[1]] for v in c07_invariants(prog, o)])
    if case.get("c07"):
        ch = case["c07"]
        prog = (F.maximal_programs()[ch["maxi"]] if "maxi" in ch else
                F.micro_programs()[ch["micro"]] if "micro" in ch else F.program(ch["seed"], ch.get("tier", "quick"), ch["kind"]))
        o = P.run_text(case["name"], case["text"], monitor=True)
        return dict(digest=dict(kind=o.kind, errors=[list(e) for e in o.errors]), violations=[list(v) for v in c07_invariants(prog, o)])
    o = P.run_text(case["name"], case["text"], keep_tokens=True)
    return dict(digest=dict(kind=o.kind, errors=[list(e) for e in o.errors]),
                violations=[[v[0] + suffix, v[1]] for v in violations(o)])
