"""C01: every member of the conforming family is accepted (no Error-level diagnostic, no fatal error).

Per program instance (shape from the seeded generator) the identifier / constant / literal slots and a
rotating subset of operator slots are symbolic; the whole real pipeline runs on the symbolic text and
the assertion is checked on every path class."""
import time
from symx import core
from symx.core import SymStr, Explorer
from symx.poly import conc
from symx.run import Collector
from harness import families as F, pipeline as P

HNAME = "harness.conform"
OPKINDS = ("binop1", "binop2", "unop1", "incdec", "assign2")


def chunks(tier, n, kinds=("c", "c", "c", "h")):
    out = [dict(maxi=i) for i in range(len(F.maximal_programs()))] + [dict(micro=i) for i in range(len(F.micro_programs()))]
    return out + [dict(seed=i, kind=kinds[i % len(kinds)], rot=i // len(kinds) % 3) for i in range(n)]


_TYPEKW = {"INT", "CHAR", "LONG", "SHORT", "FLOAT", "DOUBLE", "VOID", "UNSIGNED", "SIGNED"}


def _norm(t):
    return "TYPE" if t in _TYPEKW else t


def token_window(tokens, line, col):
    """previous significant token, flagged token, next significant token (blanks skipped, type keywords
    normalised): specific enough to tell rule sites apart, coarse enough to be stable across instances"""
    if tokens is None:
        return "?"
    idx = None
    for i, t in enumerate(tokens):
        if t.pos[0] == line and t.pos[1] == col:
            idx = i
            break
    if idx is None:
        return "?"
    a = idx - 1
    while a >= 0 and tokens[a].type in ("SPACE", "TAB"):
        a -= 1
    b = idx + 1
    while b < len(tokens) and tokens[b].type in ("SPACE", "TAB"):
        b += 1
    return ",".join([_norm(tokens[a].type) if a >= 0 else "-", _norm(tokens[idx].type),
                     _norm(tokens[b].type) if b < len(tokens) else "-"])


def violations(o, prop="C01"):
    """fingerprints of everything that makes a conforming file 'not accepted'"""
    out = []
    if o.kind == "fatal":
        out.append((f"{prop}:fatal:CParsingError", "conforming file stops with a fatal parse error"))
    elif o.kind == "exc":
        out.append((f"{prop}:exception:{o.detail}:{o.site}", f"conforming file raises {o.detail} at {o.site}"))
    seen = set()
    for name, level, line, col in o.errors:
        if level != "Error":
            continue
        line, col = conc(line), conc(col)
        fp = f"{prop}:{name}:{token_window(o.tokens, line, col)}"
        if fp not in seen:
            seen.add(fp)
            out.append((fp, f"conforming file gets {name} (tokens around it: {token_window(o.tokens, line, col)})"))
    return out


def pick_symbolic(prog, rot, max_ops=3, max_str=2, max_full=2):
    """which slots are symbolic in this instance: every identifier / numeric / char slot; a rotating window
    of <= max_ops operator slots and <= max_str string slots; <= max_full identifiers with the full
    first-character class (the others avoid l/u/L/U, see Slot.bind)"""
    slots = prog.slots()
    chosen, full = set(), set()

    def window(group, k):
        if not group:
            return []
        start = (rot * k) % len(group)
        return [group[(start + i) % len(group)] for i in range(min(k, len(group)))]
    for s in slots:
        if s.kind not in OPKINDS and s.kind != "str":
            chosen.add(s.id)
    for s in window([s for s in slots if s.kind in OPKINDS], max_ops):
        chosen.add(s.id)
    for s in window([s for s in slots if s.kind == "str"], max_str):
        chosen.add(s.id)
    for s in window([s for s in slots if s.kind in ("id", "fname", "macro", "path")], max_full):
        full.add(s.id)
    return chosen, full


def c07_invariants(prog, o):
    """C07 on a conforming program: the statements tile the stream (checked by edits.c07_violations), each starts
    at column 1 and ends at a line end, there is one statement per generated line, and the scope is back at file
    level after each function"""
    from harness.edits import c07_violations
    v = list(c07_violations(o))
    if o.kind != "ok":
        return v           # acceptance is C01's subject
    stmt_lines = [l for l in prog.lines if l.kind != "cont"]        # continuation lines belong to the statement above
    if len(o.segments) != len(stmt_lines):
        v.append(("C07:statement-count", f"{len(o.segments)} statements recognised in a file of {len(stmt_lines)} statements"))
    for k, (col, last, scope, lvl, rule, ln) in enumerate(o.seginfo):
        if col is not None and not (col == 1):
            v.append((f"C07:statement-not-at-line-start:{rule}", f"statement {rule} starts at column {col}"))
            break
        if last != "NEWLINE":
            v.append((f"C07:statement-not-ending-at-eol:{rule}", f"statement {rule} ends with {last}"))
            break
    if len(o.seginfo) == len(stmt_lines):
        for l, si in zip(stmt_lines, o.seginfo):
            if l.kind == "func_close" and not (si[2] == "GlobalScope" and si[3] == 0):
                v.append(("C07:scope-not-global-after-function", f"after the closing brace of a function the scope is {si[2]} (level {si[3]})"))
                break
            if l.kind in ("stmt", "decl", "ctrl") and si[2] == "GlobalScope":
                v.append((f"C07:scope-global-inside-function:{l.kind}", "a statement inside a function is processed at file scope"))
                break
    return v


def run_chunk(chunk, ctx):
    ex = Explorer()
    core.set_run(ex)
    c07 = ctx.get("prop") == "C07"
    if "maxi" in chunk:
        prog = F.maximal_programs()[chunk["maxi"]]
        sym, full = pick_symbolic(prog, 0, 0, 0, 1)
    elif "micro" in chunk:
        prog = F.micro_programs()[chunk["micro"]]
        sym, full = pick_symbolic(prog, 0, 99, 99, 1)
    else:
        prog = F.program(chunk["seed"], ctx["tier"], chunk["kind"])
        sym, full = pick_symbolic(prog, chunk["rot"], ctx.get("max_ops", 3))
    items, bound = prog.items(sym, ex, tag="", full_first=full)
    col = Collector(HNAME, seed=ctx["seed"], sample_rate=ctx.get("sample_rate", 0.1))
    cur = {}

    def body():
        cur.clear()
        o = P.run_text(prog.name, SymStr(items), keep_tokens=not c07, monitor=c07)
        vs = c07_invariants(prog, o) if c07 else violations(o)
        if vs:
            m = ex.model()
            text = SymStr(items).concretize(m)
            for fp, what in vs:
                col.violation(fp, what, dict(name=prog.name, text=text, c07=dict(chunk, tier=ctx["tier"]) if c07 else None))
            cur["viol"] = True
        return dict(kind=o.kind, errors=[list(e) for e in o.errors])

    def on_path(res, status):
        if status == "gap":
            col.gap(str(res)[:100])
        elif status == "timeout":
            from symx.native import hang_site
            m = ex.model()
            col.violation("hang::" + hang_site(res.__traceback__), "conforming file makes the analysis hang",
                          dict(name=prog.name, text=SymStr(items).concretize(m)))
        elif status == "ok" and not cur.get("viol") and col.want_witness():
            m = ex.model()
            col.add_witness(dict(name=prog.name, text=SymStr(items).concretize(m), c07=dict(chunk, tier=ctx["tier"]) if c07 else None), conc(res, m))

    left = max(1.0, min(ctx.get("chunk_time", 120), ctx["deadline"] - time.time()))
    ex.explore(body, on_path=on_path, max_time=left, path_alarm=10.0, max_paths=ctx.get("max_paths"))
    res = col.finish()
    res["stats"] = ex.stats()
    res["counters"]["symbolic_slots"] = len(sym)
    res["counters"]["symbolic_chars"] = sum(1 for x in items if not isinstance(x, str))
    return res


def replay(case):
    if case.get("c07"):
        ch = case["c07"]
        prog = (F.maximal_programs()[ch["maxi"]] if "maxi" in ch else
                F.micro_programs()[ch["micro"]] if "micro" in ch else F.program(ch["seed"], ch.get("tier", "quick"), ch["kind"]))
        o = P.run_text(case["name"], case["text"], monitor=True)
        return dict(digest=dict(kind=o.kind, errors=[list(e) for e in o.errors]), violations=[list(v) for v in c07_invariants(prog, o)])
    o = P.run_text(case["name"], case["text"], keep_tokens=True)
    return dict(digest=dict(kind=o.kind, errors=[list(e) for e in o.errors]),
                violations=[list(v) for v in violations(o)])
