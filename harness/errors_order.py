"""C08 (a) comparator laws of Error.__lt__ / Highlight.__lt__, (b) printed order after Errors.__iter__,
(d) humanized / JSON equivalence -- on symbolic Error objects (positions unbounded SymInts >= 1)."""
import os
import re
import json
import time
import z3
from symx import core, poly
from symx.core import Var, SymInt, Explorer, declare, choose_var
from symx.poly import feasible, conc
from symx.run import Collector

HNAME = "harness.errors_order"
NAMES = sorted(["BRACE_NEWLINE", "SPACE_EMPTY_LINE", "TOO_MANY_LINES"])
HINTS = [None, "h"]


def chunks(tier):
    import itertools
    out = []
    shapes = [(1, 1, 1), (1, 1, 2), (1, 2, 1), (2, 1, 1)] if tier == "quick" else list(itertools.product((1, 2), repeat=3))
    for shape in shapes:
        out.append(dict(mode="laws", shape=list(shape)))
    for n in (2, 3) if tier == "quick" else (2, 3, 4):
        for shape in itertools.product((1, 2), repeat=n):
            if tier == "quick" and sum(shape) > 4:
                continue
            out.append(dict(mode="order", shape=list(shape)))
    out.sort(key=lambda c: sum(c["shape"]))
    for n in (2, 3):
        for colors in (False, True):
            out.append(dict(mode="text", shape=[1] * n, colors=colors))
    return out


TEXT_NAMES = ["BAD_LEXEME", "TOO_MANY_LINES", "SPACE_EMPTY_LINE"]
TEXT_ALPHA = "".join(chr(c) for c in range(32, 127))


def run_text_chunk(chunk, ctx):
    """(d'): the real HumanizedErrorsFormatter on diagnostics whose TEXT is symbolic (every character a solver variable):
    each printed line must carry the code, level, position and text of ITS OWN diagnostic (z3 query per field); the
    witness of every class also goes through the JSON formatter natively."""
    from norminette.errors import Error, Highlight, HumanizedErrorsFormatter
    from norminette.file import File
    from symx.core import SymStr, choose, key_expr
    n, colors = len(chunk["shape"]), chunk["colors"]
    ex = Explorer()
    core.set_run(ex)
    col = Collector(HNAME, seed=ctx["seed"], sample_rate=1.0, max_witness=200)
    tv = [[declare(Var(f"t{i}_{j}", map(ord, TEXT_ALPHA))) for j in range(2)] for i in range(n)]
    cur = {}

    def body():
        cur.clear()
        names = [TEXT_NAMES[choose(f"nm{i}", len(TEXT_NAMES))] for i in range(n)]
        levels = [("Error", "Notice")[choose(f"lv{i}", 2)] for i in range(n)]
        f = File("t.c", "x\n")
        errs = []
        for i in range(n):
            e = Error(names[i], SymStr(list(tv[i])), level=levels[i], highlights=[Highlight(i + 1, 2 * i + 1)])
            errs.append(e)
            f.errors.add(e)
        out = HumanizedErrorsFormatter(f, use_colors=colors).__str__()
        lines = out.split("\n")
        m = ex.model()
        case = dict(mode="text", colors=colors,
                    errors=[dict(name=names[i], level=levels[i], text=SymStr(list(tv[i])).concretize(m), highlights=[[i + 1, 2 * i + 1, None]])
                            for i in range(n)])
        cur["case"] = case
        bad = None
        if len(lines) != n + 2:
            bad = "line-count"
        for i in range(n):
            if bad:
                break
            line = lines[i + 1]
            prefix = f"{levels[i]}: {names[i]:<20} (line: {i + 1:>3}, col: {2 * i + 1:>3}):\t"
            if len(line) < len(prefix) or not (line[:len(prefix)] == prefix):
                bad = "prefix"
                break
            rest = line[len(prefix):]
            if len(rest) >= 1 and rest[0:1] == "\x1b":
                j = rest.find("m")
                rest = rest[j + 1:len(rest) - 4]
            want = SymStr(list(tv[i]))
            if len(rest) != 2:
                bad = "text-length"
                break
            k = want.eq_key(rest)
            if k is False or (k is not True and ex.feasible(z3.Not(key_expr(k)))):
                # a model in which the printed text differs from the diagnostic's own text
                if k is not False and k is not True:
                    ex.solver.push()
                    ex.solver.add(z3.Not(key_expr(k)))
                    m2 = ex.model()
                    ex.solver.pop()
                    for q in range(n):
                        case["errors"][q]["text"] = SymStr(list(tv[q])).concretize(m2)
                bad = "text"
        if bad:
            same = "same-code" if len(set(names)) < n else "distinct-codes"
            col.violation(f"C08:format:humanized-{bad}:{same}", "a humanized line does not carry the text / fields of its own diagnostic", case)
            cur["viol"] = True
        return dict(ok=not bad)

    def on_path(res, status):
        if status == "gap":
            col.gap(str(res)[:100])
        elif status == "ok" and not cur.get("viol") and col.want_witness():
            col.add_witness(cur["case"], dict(ok=True))
    ex.explore(body, on_path=on_path, max_time=max(1.0, ctx["deadline"] - time.time()), path_alarm=10.0)
    res = col.finish()
    res["stats"] = ex.stats()
    return res


def mk_errors(ex, shape, first_min):
    """symbolic errors: shape[i] = number of highlights of error i"""
    from norminette.errors import Error, Highlight
    errs = []
    spec = []
    for i, nh in enumerate(shape):
        nv = declare(Var(f"name{i}", range(len(NAMES))))
        lv = declare(Var(f"level{i}", (0, 1)))
        hs = []
        for j in range(nh):
            l, c = z3.Int(f"l{i}_{j}"), z3.Int(f"c{i}_{j}")
            hv = declare(Var(f"hint{i}_{j}", range(len(HINTS))))
            ex.solver.add(l >= 1, c >= 1)
            hs.append((l, c, hv))
        if first_min:
            for (l, c, _) in hs[1:]:
                l0, c0, _h = hs[0]
                ex.solver.add(z3.Or(l > l0, z3.And(l == l0, c >= c0)))
        spec.append((nv, lv, hs))
    return spec


class LazyName:
    """diagnostic code chosen by the solver; NAMES is sorted, so string order == index order.
    Comparisons fork only when the comparator actually looks at the name."""

    def __init__(self, v):
        self.v = v

    def _cmp(self, o, op):
        if isinstance(o, LazyName):
            return core._b(core.k_z3(op(self.v.z, o.v.z)))
        return NotImplemented

    def __lt__(self, o):
        return self._cmp(o, lambda a, b: a < b)

    def __gt__(self, o):
        return self._cmp(o, lambda a, b: a > b)

    def __eq__(self, o):
        return self._cmp(o, lambda a, b: a == b)

    def __ne__(self, o):
        r = self.__eq__(o)
        return r if r is NotImplemented else not r

    def __hash__(self):
        return id(self)


class LazyHint:
    """None or a one-character hint, decided by the solver when the comparator looks"""

    def __init__(self, v):
        self.v = v

    def __bool__(self):
        return core._b(core.k_in(self.v, (1,)))

    def __len__(self):
        return 1 if self.__bool__() else 0


def build(spec, levels=True):
    """instantiate real Error objects from the spec"""
    from norminette.errors import Error, Highlight
    out = []
    for nv, lv, hs in spec:
        level = ("Error", "Notice")[choose_var(lv)] if levels else "Error"
        highlights = [Highlight(SymInt(l), SymInt(c), None, LazyHint(hv)) for l, c, hv in hs]
        out.append(Error(LazyName(nv), "text", level=level, highlights=highlights))
    return out


def printed_key(e):
    h = e.highlights[0]
    return (h.lineno, h.column, e.name)


def case_of(ex, spec, m=None):
    m = m if m is not None and m is not True else ex.model()
    out = []
    for nv, lv, hs in spec:
        out.append(dict(name=NAMES[m.eval(nv.z, model_completion=True).as_long()],
                        level=("Error", "Notice")[m.eval(lv.z, model_completion=True).as_long()],
                        highlights=[[m.eval(l, model_completion=True).as_long(), m.eval(c, model_completion=True).as_long(),
                                     HINTS[m.eval(hv.z, model_completion=True).as_long()]] for l, c, hv in hs]))
    return out


def laws(a, b, c, report):
    ab, ba, bc, ac, aa = a < b, b < a, b < c, a < c, a < a
    if aa:
        report("C08:law:irreflexive", "Error.__lt__ is not irreflexive (a < a)")
    if ab and ba:
        report("C08:law:asymmetric", "Error.__lt__ is not asymmetric (a < b and b < a)")
    if ab and bc and not ac:
        report("C08:law:transitive", "Error.__lt__ is not transitive")
    if not ab and not ba:
        ka, kb = printed_key(a), printed_key(b)
        cond = poly.c_or(poly.ne(ka[0], kb[0]), poly.ne(ka[1], kb[1]))
        m = poly.witness(True if (ka[2] != kb[2]) else cond)
        if m is not None:
            report("C08:law:total", "two diagnostics with different printed (line, col, name) are incomparable", m)


def order_violations(errs_in_order, report, shape):
    prev = None
    for e in errs_in_order:
        k = printed_key(e)
        if prev is not None:
            cond = poly.c_or(poly.gt(prev[0], k[0]), poly.c_and(poly.eq(prev[0], k[0]), poly.gt(prev[1], k[1])))
            m = poly.witness(cond)
            if m is not None:
                multi = "multi-highlight" if max(shape) > 1 else "single-highlight"
                report(f"C08:order:{multi}", "diagnostics are not listed in ascending (line, column) order of their printed position", m)
                return
        prev = k


def run_chunk(chunk, ctx):
    from norminette.errors import Errors
    mode, shape = chunk["mode"], chunk["shape"]
    if mode == "text":
        return run_text_chunk(chunk, ctx)
    ex = Explorer()
    core.set_run(ex)
    spec = mk_errors(ex, shape, first_min=True)
    col = Collector(HNAME, seed=ctx["seed"], sample_rate=ctx.get("sample_rate", 0.05))
    cur = {}

    def report(fp, what, m=None):
        m_case = case_of(ex, spec, m)
        col.violation(fp + ":" + "x".join(map(str, shape)) if fp.startswith("C08:law") else fp, what,
                      dict(mode=mode, errors=m_case))
        cur["viol"] = True

    def body():
        cur.clear()
        errs = build(spec, levels=(mode != "laws"))
        if mode == "laws":
            laws(errs[0], errs[1], errs[2], report)
            return dict(mode=mode)
        box = Errors()
        for e in errs:
            box.add(e)
        ordered = list(box)
        order_violations(ordered, report, shape)
        return dict(mode=mode, order=[errs.index(e) for e in ordered], status=box.status)

    def on_path(res, status):
        if status == "gap":
            col.gap(str(res)[:100])
        elif status == "ok" and not cur.get("viol") and col.want_witness():
            col.add_witness(dict(mode=mode, errors=case_of(ex, spec)), dict(ok=True))

    ex.explore(body, on_path=on_path, max_time=max(1.0, ctx["deadline"] - time.time()), path_alarm=10.0)
    res = col.finish()
    res["stats"] = ex.stats()
    return res


HUM = re.compile(r"^(Error|Notice): (\S+)\s+\(line:\s*(\d+), col:\s*(\d+)\):\t(.*)$")


def format_violations(errs, report):
    """(d): both real formatters over the same File must describe the same diagnostics in the same order"""
    from norminette.file import File
    from norminette.errors import HumanizedErrorsFormatter, JSONErrorsFormatter
    f = File("t.c", "x\n")
    for e in errs:
        f.errors.add(e)
    for colors in (False, True):
        hum = str(HumanizedErrorsFormatter(f, use_colors=colors))
        try:
            data = json.loads(str(JSONErrorsFormatter(f, use_colors=colors)))
        except ValueError:
            report("C08:format:json-invalid", "JSON output does not parse")
            return
        lines = hum.splitlines()
        head = lines[0]
        hl = []
        for l in lines[1:]:
            l = re.sub(r"\x1b\[[0-9;]*m", "", l)
            m = HUM.match(l)
            if not m:
                report("C08:format:humanized-line", "a humanized diagnostic line does not have the documented shape")
                return
            hl.append((m.group(2), m.group(1), int(m.group(3)), int(m.group(4)), m.group(5)))
        jf = data["files"][0]
        jl = [(e["name"], e["level"], e["highlights"][0]["lineno"], e["highlights"][0]["column"], e["text"]) for e in jf["errors"]]
        if head != f"t.c: {jf['status']}!" or os.path.basename(jf["path"]) != "t.c":
            report("C08:format:verdict", "verdict/file differs between the two formats")
        if hl != jl:
            report("C08:format:diagnostics", "the two formats list different diagnostics or a different order")


def text_violations(errs, colors, report):
    """native twin of run_text_chunk's assertion"""
    from norminette.file import File
    from norminette.errors import HumanizedErrorsFormatter
    f = File("t.c", "x\n")
    for e in errs:
        f.errors.add(e)
    lines = str(HumanizedErrorsFormatter(f, use_colors=colors)).split("\n")
    same = "same-code" if len({e.name for e in errs}) < len(errs) else "distinct-codes"
    if len(lines) != len(errs) + 2:
        report(f"C08:format:humanized-line-count:{same}", "line count")
        return
    for i, e in enumerate(errs):
        line = re.sub(r"\x1b\[[0-9;]*m", "", lines[i + 1])
        h = e.highlights[0]
        prefix = f"{e.level}: {e.name:<20} (line: {h.lineno:>3}, col: {h.column:>3}):\t"
        if not line.startswith(prefix):
            report(f"C08:format:humanized-prefix:{same}", "prefix")
            return
        if line[len(prefix):] != e.text:
            report(f"C08:format:humanized-text:{same}", "a humanized line does not carry the text of its own diagnostic")
            return


def replay(case):
    from norminette.errors import Error, Highlight, Errors
    errs = [(Error(e["name"], e["text"], level=e["level"], highlights=[Highlight(l, c, None, h) for l, c, h in e["highlights"]])
             if "text" in e else
             Error.from_name(e["name"], level=e["level"], highlights=[Highlight(l, c, None, h) for l, c, h in e["highlights"]]))
            for e in case["errors"]]
    viol = []

    def report(fp, what, m=None):
        viol.append([fp, what])
    shape = [len(e.highlights) for e in errs]
    if case["mode"] == "text":
        text_violations(errs, case.get("colors", False), report)
        format_violations(errs, report)
    elif case["mode"] == "laws":
        laws(errs[0], errs[1], errs[2], lambda fp, what, m=None: report(fp + ":" + "x".join(map(str, shape)), what))
    else:
        box = Errors()
        for e in errs:
            box.add(e)
        order_violations(list(box), report, shape)
        format_violations(errs, report)
    return dict(digest=dict(ok=not viol), violations=viol)
