"""C13: the 42 header is recognised exactly.
(a) regex level: the pattern string is read from the AST of the current check_header.py, translated to a
    z3 regular expression, and 'every stdheader instance is accepted' / 'every listed mutant is rejected'
    are regex-membership queries over string variables for the fields (z3 sequence theory).
(b) state machine level: the real CheckHeader.run through the real pipeline on template instances and
    structural mutants (symx exploration over solver-chosen instance / mutant / body).
Every sat answer is turned into a concrete file and replayed on the unmodified tool."""
import re
import ast
import time
import z3
from symx import core
from symx.core import Explorer, choose
from symx.run import Collector
from harness import pipeline as P

HNAME = "harness.header"
_P = re._parser
_C = re._constants

FRAME = "/* " + "*" * 74 + " */"
BLANK = "/*" + " " * 76 + "*/"
L3 = "/*                                                        :::      ::::::::   */"
L5 = "/*                                                    +:+ +:+         +:+     */"
L7 = "/*                                                +#+#+#+#+#+   +#+           */"
T4 = ":+:      :+:    :+:   */"
T6 = "+#+  +:+       +#+        */"
T8 = "#+#    #+#             */"
T9 = "###   ########.fr       */"
BODY = "\nint\tmain(void)\n{\n\treturn (0);\n}\n"


def pattern_from_source(path=None):
    path = path or (__import__("symx").REPO + "/norminette/rules/check_header.py")
    """the header pattern as written in the current source: the one string constant of check_header.py that is a
    regular expression for the By: / Created: / Updated: lines and is not commented out -- wherever it sits
    (function body, module level, class attribute), so that moving it is not an engine gap"""
    tree = ast.parse(open(path).read())
    cands, flags = [], 0
    for n in ast.walk(tree):
        if isinstance(n, ast.Constant) and isinstance(n.value, str) and "By: " in n.value and "Updated: " in n.value:
            cands.append(n.value)
        if isinstance(n, ast.Call) and isinstance(n.func, ast.Attribute) and n.func.attr in ("compile", "search", "match", "fullmatch"):
            for a in list(n.args[1:]) + [k.value for k in n.keywords]:
                for m in ast.walk(a):
                    if isinstance(m, ast.Attribute) and m.attr in ("DOTALL", "S"):
                        flags |= re.DOTALL
    cands = sorted(set(cands))
    if len(cands) != 1:
        raise core.EngineGap(f"header pattern not identified in check_header.py ({len(cands)} candidate string constants)")
    pat = cands[0]
    if pat.startswith("(?s") :
        flags |= re.DOTALL
    return pat, flags


ANY = None


def _any():
    return z3.AllChar(z3.ReSort(z3.StringSort()))


def _cat(av):
    W = z3.Union(z3.Range('a', 'z'), z3.Range('A', 'Z'), z3.Range('0', '9'), z3.Re('_'))
    D = z3.Range('0', '9')
    S = z3.Union(z3.Re(' '), z3.Re('\t'), z3.Re('\n'), z3.Re('\r'), z3.Re('\x0b'), z3.Re('\x0c'))
    table = {_C.CATEGORY_WORD: W, _C.CATEGORY_DIGIT: D, _C.CATEGORY_SPACE: S}
    neg = {_C.CATEGORY_NOT_WORD: W, _C.CATEGORY_NOT_DIGIT: D, _C.CATEGORY_NOT_SPACE: S}
    if av in table:
        return table[av]
    if av in neg:
        return z3.Intersect(_any(), z3.Complement(neg[av]))
    raise core.EngineGap(f"header regex category {av}")


def _cls(items):
    neg = False
    alts = []
    for op, av in items:
        if op == _C.CATEGORY:
            alts.append(_cat(av))
            continue
        if op == _C.NEGATE:
            neg = True
        elif op == _C.LITERAL:
            alts.append(z3.Re(chr(av)))
        elif op == _C.RANGE:
            alts.append(z3.Range(chr(av[0]), chr(av[1])))
        else:
            raise core.EngineGap(f"header regex class item {op}")
    r = alts[0] if len(alts) == 1 else z3.Union(*alts)
    if neg:
        r = z3.Intersect(_any(), z3.Complement(r))
    return r


def to_z3(nodes, dotall):
    parts = []
    for op, av in nodes:
        if op == _C.LITERAL:
            parts.append(z3.Re(chr(av)))
        elif op == _C.ANY:
            parts.append(_any() if dotall else z3.Intersect(_any(), z3.Complement(z3.Re("\n"))))
        elif op == _C.IN:
            parts.append(_cls(av))
        elif op == _C.CATEGORY:
            parts.append(_cat(av))
        elif op == _C.NOT_LITERAL:
            parts.append(z3.Intersect(_any(), z3.Complement(z3.Re(chr(av)))))
        elif op == _C.SUBPATTERN:
            parts.append(to_z3(av[3], dotall))
        elif op == _C.MAX_REPEAT:
            lo, hi, p = av
            r = to_z3(p, dotall)
            if hi == _C.MAXREPEAT:
                parts.append(z3.Star(r) if lo == 0 else (z3.Plus(r) if lo == 1 else z3.Concat(z3.Loop(r, lo, lo), z3.Star(r))))
            else:
                parts.append(z3.Loop(r, lo, hi))
        elif op == _C.BRANCH:
            parts.append(z3.Union(*[to_z3(a, dotall) for a in av[1]]))
        else:
            raise core.EngineGap(f"header regex op {op}")
    if not parts:
        return z3.Re("")
    return parts[0] if len(parts) == 1 else z3.Concat(*parts)


def search_re():
    pat, flags = pattern_from_source()
    R = to_z3(list(_P.parse(pat, flags)), bool(flags & re.DOTALL))
    return z3.Concat(z3.Star(_any()), R, z3.Star(_any())), pat, flags


# ---------------------------------------------------------------------------------------------- template
def template(s, mutation=None):
    """adds the field constraints to solver s; returns the list of 11 line terms (without newline)"""
    fn, login, mail, d1, d2 = z3.Strings("fn login mail d1 d2")
    pads = z3.Strings("pad4 pad6 pad8 pad9")
    lo = z3.Union(z3.Range('a', 'z'), z3.Range('0', '9'), z3.Re('_'), z3.Re('-'))
    fnc = z3.Union(z3.Range('a', 'z'), z3.Range('A', 'Z'), z3.Range('0', '9'), z3.Re('_'), z3.Re('.'), z3.Re('-'))
    mlc = z3.Union(lo, z3.Re('.'), z3.Re('@'))
    dg = z3.Range('0', '9')
    date = z3.Concat(z3.Loop(dg, 4, 4), z3.Re('/'), z3.Loop(dg, 2, 2), z3.Re('/'), z3.Loop(dg, 2, 2), z3.Re(' '),
                     z3.Loop(dg, 2, 2), z3.Re(':'), z3.Loop(dg, 2, 2), z3.Re(':'), z3.Loop(dg, 2, 2))
    s.add(z3.InRe(fn, z3.Plus(fnc)), z3.InRe(login, z3.Plus(lo)), z3.InRe(mail, z3.Plus(mlc)))
    s.add(z3.Length(fn) <= 41, z3.Length(login) <= 9, z3.Length(mail) <= 25)
    for p in pads:
        s.add(z3.InRe(p, z3.Star(z3.Re(" "))))
    s.add(z3.InRe(d1, date), z3.InRe(d2, date))
    sv = z3.StringVal
    by, created, updated = sv("By: "), sv("Created: "), sv("Updated: ")
    byl1, byl2 = z3.Concat(sv(" by "), login), z3.Concat(sv(" by "), login)
    if mutation and mutation[0] == "m6":
        # one character (position mutation[2]) of the keyword replaced by another character (mutation[3])
        which, pos = mutation[1], mutation[2]
        orig = {"By": "By: ", "Created": "Created: ", "Updated": "Updated: "}[which]
        c = sv(mutation[3])
        assert mutation[3] != orig[pos]
        w = z3.Concat(sv(orig[:pos]), c, sv(orig[pos + 1:])) if 0 < pos < len(orig) - 1 else (
            z3.Concat(c, sv(orig[1:])) if pos == 0 else z3.Concat(sv(orig[:-1]), c))
        if which == "By":
            by = w
        elif which == "Created":
            created = w
        else:
            updated = w
    if mutation and mutation[0] == "m7":
        if mutation[1] == 8:
            byl1 = sv("")
        else:
            byl2 = sv("")
    l4 = z3.Concat(sv("/*   "), fn, pads[0], sv(T4))
    l6 = z3.Concat(sv("/*   "), by, login, sv(" <"), mail, sv(">"), pads[1], sv(T6))
    l8 = z3.Concat(sv("/*   "), created, d1, byl1, pads[2], sv(T8))
    l9 = z3.Concat(sv("/*   "), updated, d2, byl2, pads[3], sv(T9))
    for l in (l4, l6, l8, l9):
        s.add(z3.Length(l) == 80)
    lines = [sv(FRAME), sv(BLANK), sv(L3), l4, sv(L5), l6, sv(L7), l8, l9, sv(BLANK), sv(FRAME)]
    if mutation:
        m = mutation[0]
        if m == "m1":
            del lines[mutation[1] - 1]
        elif m == "m2":
            lines[0 if mutation[1] == 1 else 10] = sv("/* " + "*" * mutation[2] + " */")
        elif m in ("m3", "m4", "m5"):
            lines[{"m3": 5, "m4": 7, "m5": 8}[m]] = sv(BLANK)
        elif m == "m8":
            i = mutation[1] - 1
            lines[i], lines[i + 1] = lines[i + 1], lines[i]
    return lines


def header_term(lines):
    out = []
    for l in lines:
        out += [l, z3.StringVal("\n")]
    return z3.Concat(*out)


def mutations(tier="thorough"):
    q = tier == "quick"
    ms = [("valid",), ("twin",)]
    ms += [("m1", i) for i in ((1, 2, 4, 6, 8, 9, 11) if q else range(1, 12))]
    ms += [("m2", 1, 75), ("m2", 11, 73)] if q else [("m2", l, k) for l in (1, 11) for k in (0, 1, 72, 73, 75, 76, 90)]
    ms += [("m3",), ("m4",), ("m5",)]
    for kw, n in (("By", 4), ("Created", 9), ("Updated", 9)):
        orig = {"By": "By: ", "Created": "Created: ", "Updated": "Updated: "}[kw]
        for p in ((0,) if q else range(n)):
            for ch in ((orig[p].swapcase() if orig[p].isalpha() else "x",) if q else
                       sorted({orig[p].swapcase() if orig[p].isalpha() else "x", " ", "_", "z"} - {orig[p]})):
                ms.append(("m6", kw, p, ch))
    ms += [("m7", 8), ("m7", 9)]
    ms += [("m8", i) for i in ((1, 2, 3, 5, 8, 10) if q else range(1, 11))]
    return ms


STRUCT = ["template", "absent", "empty_line_before", "code_before", "include_before", "line_comments", "one_block",
          "header_then_eof", "header_only_no_nl", "twelfth_line", "blank_after_then_body", "space_before_first_line"]
# every single mutation of the list also goes through the REAL CheckHeader (not only through the z3 translation of its
# pattern): a line removed, a frame line of the wrong width, a By / Created / Updated line blanked, two lines swapped
STRUCT += ["rm_line_%d" % k for k in range(1, 12)] + ["frame_top_73", "frame_top_75", "frame_bottom_73", "frame_bottom_75",
                                                        "by_blank", "created_blank", "updated_blank", "by_lowercase", "swap_8_9", "swap_1_2"]
# comments of other kinds directly below the header (no empty line): a valid header stays valid (0), a mutated one is
# reported exactly once
STRUCT += ["line_comment_after_header", "indented_comment_after_header", "rm_line_5_then_line_comment", "frame_top_73_then_line_comment",
           "by_blank_then_indented_comment", "plain_block_then_line_comment", "rm_line_11_then_two_line_comments"]
STRUCT_KNOWN_ACCEPTED = ()
INSTANCES = [("main.c", "jdoe", "jdoe@student.42.fr", "2018/03/29 13:47:14", "2018/05/02 21:16:08"),
             ("a.h", "x", "x@y", "1970/01/01 00:00:00", "2099/12/31 23:59:59"),
             ("ft_very_long_file_name_for_the_header_tst.c", "abcdefghi", "abcdefghi@student.42lausan", "2024/02/29 09:09:09", "2024/02/29 09:09:10"),
             ("Makefile-like.name_1.c", "a-b_9", "a-b_9@42.fr", "2001/11/11 11:11:11", "2001/11/11 11:11:11")]


def concrete_header(inst):
    fn, login, mail, d1, d2 = inst

    def fit(left, tail):
        return left + " " * (80 - len(left) - len(tail)) + tail
    return [FRAME, BLANK, L3, fit("/*   " + fn, T4), L5, fit(f"/*   By: {login} <{mail}>", T6), L7,
            fit(f"/*   Created: {d1} by {login}", T8), fit(f"/*   Updated: {d2} by {login}", T9), BLANK, FRAME]


def struct_text(kind, inst):
    h = concrete_header(inst)
    H = "\n".join(h) + "\n"
    if kind == "template":
        return H + BODY, 0
    if kind == "absent":
        return BODY.lstrip("\n"), 1
    if kind == "empty_line_before":
        return "\n" + H + BODY, 1
    if kind == "code_before":
        return "int\tg_x;\n" + H + BODY, 1
    if kind == "include_before":
        return "#include <stdio.h>\n" + H + BODY, 1
    if kind == "line_comments":
        return "".join("//" + l[2:-2] + "\n" for l in h) + BODY, 1
    if kind == "one_block":
        return "/*" + "\n".join(l[2:-2] for l in h) + "*/\n" + BODY, 1
    if kind == "header_then_eof":
        return H, 0
    if kind == "header_only_no_nl":
        return H[:-1], 0
    if kind == "twelfth_line":
        return H + BLANK + "\n" + BODY, 0        # an extra comment line after a complete header: still a header at the beginning
    if kind == "blank_after_then_body":
        return H + "\n" + BODY, 0
    if kind == "space_before_first_line":
        return " " + H + BODY, 1
    if kind == "line_comment_after_header":
        return H + "// about\n" + BODY, 0
    if kind == "indented_comment_after_header":
        return H + "\t/* about */\n" + BODY, 0
    if kind == "plain_block_then_line_comment":
        return "/* just a comment */\n// more\n" + BODY, 1
    if "_then_" in kind:
        base, tail = kind.split("_then_")
        t, _ = struct_text(base, inst)
        t = t[:len(t) - len(BODY)]
        extra = {"line_comment": "// about\n", "indented_comment": "\t/* about */\n", "two_line_comments": "// one\n// two\n"}[tail]
        return t + extra + BODY, 1
    if kind.startswith("rm_line_"):
        k = int(kind.split("_")[-1])
        return "\n".join(h[:k - 1] + h[k:]) + "\n" + BODY, 1
    if kind.startswith("frame_"):
        w = int(kind.split("_")[-1])
        hh = list(h)
        hh[0 if "top" in kind else 10] = "/* " + "*" * w + " */"
        return "\n".join(hh) + "\n" + BODY, 1
    if kind in ("by_blank", "created_blank", "updated_blank"):
        hh = list(h)
        hh[{"by_blank": 5, "created_blank": 7, "updated_blank": 8}[kind]] = BLANK
        return "\n".join(hh) + "\n" + BODY, 1
    if kind == "by_lowercase":
        hh = list(h)
        hh[5] = hh[5].replace("By: ", "by: ")
        return "\n".join(hh) + "\n" + BODY, 1
    if kind.startswith("swap_"):
        a, b = [int(x) - 1 for x in kind.split("_")[1:]]
        hh = list(h)
        hh[a], hh[b] = hh[b], hh[a]
        return "\n".join(hh) + "\n" + BODY, 1
    raise ValueError(kind)


def chunks(tier):
    out = [dict(part="regex", m=list(m)) for m in mutations(tier)]
    out.append(dict(part="struct"))
    return out


def count_invalid(text, name="t.c"):
    o = P.run_text(name, text)
    return o, sum(1 for e in o.errors if e[0] == "INVALID_HEADER")


def run_chunk(chunk, ctx):
    col = Collector(HNAME, seed=ctx["seed"], sample_rate=1.0)
    t0 = time.time()
    if chunk["part"] == "regex":
        m = tuple(chunk["m"])
        SEARCH, pat, flags = search_re()
        kind = m[0]

        def query(ground):
            s = z3.Solver()
            s.set("timeout", int(ctx.get("query_timeout", 240)) * 1000)
            lines = template(s, None if kind in ("valid", "twin") else m)
            H = header_term(lines)
            if ground is not None:
                fn, login, mail, d1, d2 = z3.Strings("fn login mail d1 d2")
                for var, val in zip((fn, login, mail, d1, d2), ground):
                    s.add(var == z3.StringVal(val))
            s.add(z3.Not(z3.InRe(H, SEARCH)) if kind == "valid" else z3.InRe(H, SEARCH))
            return s, H, s.check()
        # stage 1: the same query with the fields pinned to a concrete instance (a cheap way for the solver to
        # find a counterexample if there is one); stage 2: the general query over all field values
        nq = 1
        s, H, r = query(INSTANCES[0])
        if r != z3.sat and kind != "twin":
            nq = 2
            s, H, r = query(None)
        stats = dict(paths=1, queries=nq, sat=int(r == z3.sat), unsat=int(r == z3.unsat), unknown=int(r == z3.unknown),
                     solver_time_s=round(time.time() - t0, 2), exhaustive=r != z3.unknown)
        label = "_".join(map(str, m))
        col.notes[f"query:{label}"] = f"{r} in {time.time() - t0:.1f}s"
        if r == z3.unknown:
            col.gap(f"z3 unknown on header query {label}")
        elif r == z3.sat:
            hs = s.model().eval(H, model_completion=True).as_string()
            hs = re.sub(r"\\u\{([0-9a-fA-F]+)\}", lambda mm: chr(int(mm.group(1), 16)), hs)
            case = dict(part="regex", m=list(m), header=hs)
            if kind == "valid":
                col.violation("C13:regex:valid-rejected", "a well-formed stdheader instance is rejected by the header regex", case)
            elif kind == "twin":
                col.add_witness(case, dict(ok=True))       # reachability twin: a template instance exists and is accepted
            else:
                col.violation(f"C13:regex:{label}:accepted", f"header mutation {label} is accepted (no INVALID_HEADER)", case)
        elif kind == "twin":
            col.gap("vacuity twin unsat: the header template has no instance")
        res = col.finish(limit=60)
        res["stats"] = stats
        return res
    # ---- structural part: solver-chosen (shape, instance) through the real pipeline
    ex = Explorer()
    core.set_run(ex)
    cur = {}

    def body():
        cur.clear()
        k = choose("shape", len(STRUCT))
        i = choose("inst", len(INSTANCES))
        text, want = struct_text(STRUCT[k], INSTANCES[i])
        name = INSTANCES[i][0] if STRUCT[k] != "absent" else "t.c"
        o, n = count_invalid(text, name)
        if o.kind == "ok" and n != want:
            col.violation(f"C13:struct:{STRUCT[k]}:count={n}", f"{STRUCT[k]}: {n} INVALID_HEADER diagnostic(s), expected {want}",
                          dict(part="struct", shape=STRUCT[k], inst=i))
            cur["viol"] = True
        return dict(shape=STRUCT[k], inst=i, kind=o.kind, n=n)

    def on_path(res, status):
        if status == "gap":
            col.gap(str(res)[:100])
        elif status == "ok" and not cur.get("viol"):
            col.add_witness(dict(part="struct", shape=res["shape"], inst=res["inst"]), dict(ok=True))
    ex.explore(body, on_path=on_path, max_time=120, path_alarm=20)
    res = col.finish(limit=60)
    res["stats"] = ex.stats()
    return res


def replay(case):
    viol = []
    if case["part"] == "regex":
        m = tuple(case["m"])
        label = "_".join(map(str, m))
        # the header as the tool sees it: as the beginning of a real file followed by a conforming body
        o, n = count_invalid(case["header"] + BODY)
        if m[0] in ("valid", "twin"):
            if n != 0:
                viol.append(["C13:regex:valid-rejected", f"{n} INVALID_HEADER on a template instance"])
        elif n == 0:
            viol.append([f"C13:regex:{label}:accepted", "mutant accepted"])
        return dict(digest=dict(ok=not viol), violations=viol)
    text, want = struct_text(case["shape"], INSTANCES[case["inst"]])
    name = INSTANCES[case["inst"]][0] if case["shape"] != "absent" else "t.c"
    o, n = count_invalid(text, name)
    if o.kind == "ok" and n != want:
        viol.append([f"C13:struct:{case['shape']}:count={n}", "count differs"])
    return dict(digest=dict(ok=not viol), violations=viol)
