"""C12: alternative spellings and line splices do not change the tokens.
(a) token level: window of n symbolic characters lexed completely; at every token boundary a splice
    (backslash-newline, ??/-newline) is inserted, and every punctuator character that has a trigraph /
    digraph spelling is respelled; the (type, value) sequences of the two real lexer runs must be equal.
(b) pipeline level: occurrences of { } [ ] of conforming programs respelled; the diagnostics (code, line)
    must not change."""
import time
import z3
from symx import core
from symx.core import Var, SymStr, Explorer, declare
from symx.poly import conc
from symx.run import Collector
from oracle import lex as O
from harness import lexer_step as LS

HNAME = "harness.respell"
TRI = {'{': "??<", '}': "??>", '[': "??(", ']': "??)", '#': "??=", '^': "??'", '|': "??!", '~': "??-"}
DI = {'{': "<%", '}': "%>", '[': "<:", ']': ":>", '#': "%:"}
MODES = ("splice", "splice_tri", "splice_plain_then_tri", "splice_tri_then_plain", "tri", "di", "tri_all", "di_all")


# punctuator family: longer windows over the characters that take part in longest-match operator recognition and in
# digraph / trigraph spellings (every character symbolic over this alphabet; 'a' and the blank separate tokens)
PUNCT_Q = "<>%:=|#[a "
PUNCT_T = "<>%:=|#[]{}-&^~+.a "


def chunks(tier, N):
    out = []
    for n in range(1, N + 1):
        for mode in MODES:
            for g in range(len(LS._GROUPS) + 1):
                out.append(dict(part="tokens", n=n, mode=mode, g=g))
    fams = [(PUNCT_Q, 4)] if tier == "quick" else [(PUNCT_T, 4), (PUNCT_Q, 5)]
    for alpha, n in fams:
        for mode in MODES:
            for first in alpha:
                out.append(dict(part="tokens", n=n, mode=mode, g=-1, fam="punct", first=first, alpha=alpha))
    return out


def lex(items):
    from norminette.file import File
    from norminette.lexer import Lexer
    src = SymStr.mk(items) if not isinstance(items, str) else items
    f = File("t.c", src)
    return list(Lexer(f)), f


def tv(toks):
    return [(t.type, t.value) for t in toks]


def same(a, b):
    if len(a) != len(b):
        return False
    for (t1, v1), (t2, v2) in zip(a, b):
        if t1 != t2 or (v1 is None) != (v2 is None):
            return False
        if v1 is not None and not (v1 == v2):
            return False
    return True


def token_offsets(toks):
    offs, o = [], 0
    for t in toks:
        offs.append(o)
        if t.value is not None:
            o += len(t.value)
        else:
            o += len(O.LEXEME_OF.get(t.type, " "))
    return offs, o


def analyse(chars, mode, out):
    """chars: list of items (symbolic or concrete 1-char strings)"""
    n = len(chars)
    try:
        base, f0 = lex(list(chars))
    except Exception:
        return dict(skipped="base-exception")      # C05's subject
    if f0.errors._inner:
        return dict(skipped="base-diagnostics")    # malformed input: outside 'sequence of tokens' claims
    for i in range(n - 1):
        pair = SymStr.mk(chars[i:i + 2])
        if core.contains(["<%", "%>", "<:", ":>", "%:"], pair) if not isinstance(pair, str) else pair in ("<%", "%>", "<:", ":>", "%:"):
            return dict(skipped="base-digraph")
    offs, total = token_offsets(base)
    if total != n:
        return dict(skipped="base-length")         # tabs in block comments etc. change lengths
    edits = 0
    sites = []
    for ti, o in enumerate(offs + [n]):
        t = base[ti] if ti < len(base) else None
        if mode.startswith("splice"):
            sites.append((ti, o, t))
        elif t is not None and t.value is None:
            # every character of a punctuator lexeme is an edit site (mixed spellings such as "|??!" for "||")
            for k in range(len(O.LEXEME_OF.get(t.type, " "))):
                sites.append((ti, o + k, t))
    if mode in ("tri_all", "di_all"):
        # every respellable punctuator character of the window respelled at once (two operators sharing a spelled prefix,
        # state kept between tokens)
        table = TRI if mode == "tri_all" else DI
        items, nrep = [], 0
        for o in range(n):
            c = chars[o]
            hit = None
            if any(ti_o <= o < ti_o + len(O.LEXEME_OF.get(base[ti].type, " ")) and base[ti].value is None
                   for ti, ti_o in enumerate(offs)):
                for p_, spx in table.items():
                    if (c == p_) if isinstance(c, str) else (SymStr([c]) == p_):
                        hit = spx
                        break
            if hit is not None and mode == "di_all":
                prev = chars[o - 1] if o > 0 else None
                nxt = chars[o + 1] if o + 1 < n else None
                if prev is not None and ((prev in "<%:>=-+&|*/^!") if isinstance(prev, str) else core.contains("<%:>=-+&|*/^!", SymStr([prev]))):
                    hit = None
                elif nxt is not None and ((nxt in "<%:>") if isinstance(nxt, str) else core.contains("<%:>", SymStr([nxt]))):
                    hit = None
            if hit is None:
                items.append(c)
            else:
                items += list(hit)
                nrep += 1
        if nrep >= 2:
            try:
                t2, f2 = lex(items)
                if not same(tv(base), tv(t2)):
                    out(f"C12:{mode}:tokens-differ:{nrep if nrep < 3 else 'many'}-sites", f"respelling every punctuator of the window ({mode}) changes the token sequence", items)
            except Exception as e:
                out(f"C12:{mode}:exception:{type(e).__name__}", f"{mode} makes the lexer raise {type(e).__name__}", items)
            return dict(edits=1)
        return dict(edits=0)
    for ti, o, t in sites:
        if mode.startswith("splice"):
            plain, tri = ["\\", "\n"], ["?", "?", "/", "\n"]
            sp = {"splice": plain, "splice_tri": tri, "splice_plain_then_tri": plain + tri, "splice_tri_then_plain": tri + plain}[mode]
            items = list(chars[:o]) + sp + list(chars[o:])
            site = f"before:{t.type if t else 'EOF'}/after:{base[ti - 1].type if ti else 'BOF'}"
        else:
            c = chars[o]
            table = TRI if mode == "tri" else DI
            hit = None
            for p, spx in table.items():
                if (c == p) if isinstance(c, str) else (SymStr([c]) == p):
                    hit = spx
                    break
            if hit is None:
                continue
            if mode == "di" and o > 0:
                prev = chars[o - 1]
                # scope rule of DESIGN 4.12: a digraph is applied only where the preceding raw character cannot
                # combine with '<', '%' or ':' into a longer punctuator (C's own longest match would change it)
                if (prev in "<%:>=-+&|*/^!") if isinstance(prev, str) else core.contains("<%:>=-+&|*/^!", SymStr([prev])):
                    continue
            if mode == "di" and o + 1 < n:
                nxt = chars[o + 1]
                if (nxt in "<%:>") if isinstance(nxt, str) else core.contains("<%:>", SymStr([nxt])):
                    continue
            items = list(chars[:o]) + list(hit) + list(chars[o + 1:])
            site = t.type
        edits += 1
        try:
            t2, f2 = lex(items)
        except Exception as e:
            out(f"C12:{mode}:exception:{type(e).__name__}:{site}", f"{mode} edit makes the lexer raise {type(e).__name__}", items)
            continue
        if not same(tv(base), tv(t2)):
            out(f"C12:{mode}:tokens-differ:{site}", f"{mode} edit at a token boundary changes the token sequence ({site})", items)
    return dict(edits=edits)


def run_chunk(chunk, ctx):
    if chunk.get("part") == "pipeline":
        return run_pipeline_chunk(chunk, ctx)
    n, mode, g = chunk["n"], chunk["mode"], chunk["g"]
    ex = Explorer()
    core.set_run(ex)
    dom = [c for c in range(128) if chr(c) not in "?\\"]
    if chunk.get("fam") == "punct":
        dom = [ord(c) for c in chunk["alpha"]]
    chars = [declare(Var(f"c{i}", dom)) for i in range(n)]
    codes = (LS._group_codes(g) & frozenset(dom)) if chunk.get("fam") != "punct" else frozenset([ord(chunk["first"])])
    if not codes:
        return dict(stats=dict(paths=0, exhaustive=True), validated=0, confirmed=[], unconfirmed=[], n_mismatch=0, mismatches=[],
                    samples=[], gaps={}, counters={}, notes={})
    ex.solver.add(core.key_expr(("in", chars[0], codes)))
    col = Collector(HNAME, seed=ctx["seed"], sample_rate=ctx.get("sample_rate", 0.03))
    cur = {}

    def out(fp, what, items):
        m = ex.model()
        col.violation(fp, what, dict(part="tokens", mode=mode, w=SymStr(chars).concretize(m)))
        cur["viol"] = True

    def body():
        cur.clear()
        return analyse(chars, mode, out)

    def on_path(res, status):
        if status == "gap":
            col.gap(str(res)[:100])
        elif status == "timeout":
            col.count("slow_paths_not_analysed")
        elif status == "ok":
            if res.get("skipped"):
                col.count("skipped:" + res["skipped"])
            elif res.get("edits") and not cur.get("viol") and col.want_witness():
                col.add_witness(dict(part="tokens", mode=mode, w=SymStr(chars).concretize(ex.model())), conc(res))
    ex.explore(body, on_path=on_path, max_time=max(1.0, ctx["deadline"] - time.time()), path_alarm=10.0)
    res = col.finish()
    res["stats"] = ex.stats()
    return res


# ---------------------------------------------------------------------------------------------- (b) pipeline level
# hand-written bases with brace / bracket shapes the generator does not produce (conforming or not: the claim is relational)
PIPE_SPECIAL = [
    ("n1.h", "#ifndef N1_H\n# define N1_H\n\ntypedef struct s_out\n{\n\tint\ta;\n\tstruct s_in\n\t{\n\t\tint\tb;\n\t} in;\n\tint\tc;\n}\tt_out;\n\n#endif\n"),
    ("n5.h", "#ifndef N5_H\n# define N5_H\n\nstruct s_out\n{\n\tchar\t*a;\n\tunion u_in\n\t{\n\t\tint\tb;\n\t} in;\n\tstruct s_x\n\t{\n\t\tint\tq;\n\t}  xx;\n};\n\n#endif\n"),
    ("n2.c", "static int\tg_tab[2][3] = {{1, 2, 3}, {4, 5, 6}};\n\nint\tfn(int a[2], char *s[])\n{\n\tif (a[0]) {\n\t\treturn (g_tab[1][a[1]]);\n\t} else {\n\t\treturn (s[0][0]);\n\t}\n}\n"),
    ("n3.c", "int\tfn(int a)\n{\n\tint\tt[3];\n\n\tt[0] = a;\n\twhile (t[0]) { t[0]--; }\n\treturn (t[ t[0] ]);\n}\n"),
    ("n4.h", "#ifndef N4_H\n# define N4_H\n\nenum e_k\n{\n\tKA,\n\tKB\n} ;\n\nunion u_v\n{\n\tint\t\ti;\n\tchar\tc[4];\n};\n\n#endif\n"),
]


def pipeline_chunks(tier, n):
    out = [dict(part="pipeline", special=i, seed=i, kind="c", sub=0) for i in range(len(PIPE_SPECIAL))]
    return out + [dict(part="pipeline", seed=i, kind="h" if i % 4 == 3 else "c", sub=i % 3) for i in range(n)]


def respell_sites(text):
    """offsets of { } [ ] occurrences that may be respelled without breaking the Norm: the line must stay
    <= 80 columns and nothing alignment-relevant may follow the site on its line"""
    sites = []
    lines = text.split("\n")
    off = 0
    in_header = 11
    for ln, line in enumerate(lines):
        if ln >= in_header:
            for i, ch in enumerate(line):
                if ch in "{}[]" and '"' not in line and "'" not in line and "\t" not in line[i:]:
                    sites.append((off + i, ch, ln + 1))
        off += len(line) + 1
    return sites


def run_pipeline_chunk(chunk, ctx):
    from harness import families as F, pipeline as P
    prog = F.program(chunk["seed"], ctx["tier"], chunk["kind"])
    if "special" in chunk:
        name, body = PIPE_SPECIAL[chunk["special"]]
        prog = F.Prog(name, F.header_lines(name) + [F.Line([""], "blank")] + [F.Line([l], "raw") for l in body.split("\n")[:-1]])
    ex = Explorer()
    core.set_run(ex)
    col = Collector(HNAME, seed=ctx["seed"], sample_rate=ctx.get("sample_rate", 0.1))
    ids = {s.id for s in prog.slots() if s.kind in ("id", "fname", "dec")}
    items, _ = prog.items(ids, ex)
    text0 = prog.default_text()
    sites = respell_sites(text0)
    # items and default text have the same length (slots have fixed length)
    cur = {}
    if not sites:
        return dict(stats=dict(paths=0, exhaustive=True), validated=0, confirmed=[], unconfirmed=[], n_mismatch=0, mismatches=[],
                    samples=[], gaps={}, counters={"skipped_no_site": 1}, notes={})

    def variant(subset, table):
        out = []
        last = 0
        for off, ch, ln in subset:
            out += items[last:off] + list(table[ch])
            last = off + 1
        return out + items[last:]

    def widths_ok(subset, table):
        lines = text0.split("\n")
        extra = {}
        for off, ch, ln in subset:
            extra[ln] = extra.get(ln, 0) + len(table[ch]) - 1
        return all(F.width(lines[ln - 1]) + e <= 80 for ln, e in extra.items())

    def body():
        cur.clear()
        table = TRI if core.choose("table", 2) == 0 else DI
        k = core.choose("first", len(sites))
        step = 1 + core.choose("step", 3)
        subset = [sites[(k + j * step) % len(sites)] for j in range(min(3, len(sites)))]
        subset = sorted(set(subset))
        if not widths_ok(subset, table):
            raise core.Infeasible()
        a = P.run_text(prog.name, SymStr(items))
        b = P.run_text(prog.name, SymStr(variant(subset, table)))
        ka = (a.kind, a.detail, sorted((e[0], conc(e[2])) for e in a.errors))
        kb = (b.kind, b.detail, sorted((e[0], conc(e[2])) for e in b.errors))
        res = dict(same=(ka == kb))
        if ka != kb:
            m = ex.model()
            only_a = sorted({x[0] for x in ka[2] if x not in kb[2]})
            only_b = sorted({x[0] for x in kb[2] if x not in ka[2]})
            fp = f"C12:pipeline:{'tri' if table is TRI else 'di'}:{'+'.join(only_a) or '-'}|{'+'.join(only_b) or '-'}" if ka[0] == kb[0] else \
                f"C12:pipeline:verdict:{ka[0]}{ka[1]}|{kb[0]}{kb[1]}"
            col.violation(fp, "respelling braces/brackets as digraphs/trigraphs changes the diagnostics",
                          dict(part="pipeline", name=prog.name, a=SymStr(items).concretize(m), b=SymStr(variant(subset, table)).concretize(m)))
            cur["viol"] = True
        cur["pair"] = (items, variant(subset, table))
        return res

    def on_path(res, status):
        if status == "gap":
            col.gap(str(res)[:100])
        elif status == "timeout":
            col.count("slow_paths_not_analysed")
        elif status == "ok" and not cur.get("viol") and col.want_witness():
            m = ex.model()
            a, b = cur["pair"]
            col.add_witness(dict(part="pipeline", name=prog.name, a=SymStr(a).concretize(m), b=SymStr(b).concretize(m)), dict(same=True))
    ex.explore(body, on_path=on_path, max_time=max(1.0, min(ctx.get("chunk_time", 60), ctx["deadline"] - time.time())), path_alarm=20.0, max_paths=ctx.get("max_paths"))
    res = col.finish()
    res["stats"] = ex.stats()
    return res


def replay(case):
    viol = []
    if case["part"] == "tokens":
        digest = analyse(list(case["w"]), case["mode"], lambda fp, what, items: viol.append([fp, what]))
        return dict(digest=digest, violations=viol)
    from harness import pipeline as P
    a = P.run_text(case["name"], case["a"])
    b = P.run_text(case["name"], case["b"])
    ka = (a.kind, a.detail, sorted((e[0], e[2]) for e in a.errors))
    kb = (b.kind, b.detail, sorted((e[0], e[2]) for e in b.errors))
    if ka != kb:
        only_a = sorted({x[0] for x in ka[2] if x not in kb[2]})
        only_b = sorted({x[0] for x in kb[2] if x not in ka[2]})
        tri = "??" in case["b"]
        fp = f"C12:pipeline:{'tri' if tri else 'di'}:{'+'.join(only_a) or '-'}|{'+'.join(only_b) or '-'}" if ka[0] == kb[0] else \
            f"C12:pipeline:verdict:{ka[0]}{ka[1]}|{kb[0]}{kb[1]}"
        viol.append([fp, "diagnostics differ"])
    return dict(digest=dict(same=(ka == kb)), violations=viol)
