"""Conforming-program family (DESIGN.md 4.1): structured generator of Norm-conforming .c / .h files.

A program is a list of Lines; a Line is a list of parts: concrete strings and Slots.  Shapes
(which productions, how many statements, nesting) are chosen by a seeded RNG; slot CONTENTS stay
symbolic in the checks (identifier spellings, constants' digits, operator choices, literal contents).
Everything the Norm limits is respected by construction.
"""
import random
import z3
from symx import core
from symx.core import Var

C_KEYWORDS = ["auto", "break", "case", "char", "const", "continue", "default", "do", "double", "else", "enum",
              "extern", "float", "for", "goto", "if", "inline", "int", "long", "register", "restrict", "return",
              "short", "signed", "sizeof", "static", "struct", "switch", "typedef", "union", "unsigned", "void",
              "volatile", "while"]   # C11 6.4.1 (lower-case ones; _Bool etc. cannot be produced by the classes below)
SPECIAL_NAMES = ["environ", "defined", "__attribute__", "NULL", "main"]

LOW = "abcdefghijklmnopqrstuvwxyz"
LOWD = LOW + "0123456789_"
UP = "ABCDEFGHIJKLMNOPQRSTUVWXYZ"
UPD = UP + "0123456789_"
BINOP1 = "+-*/%<>&|^"
BINOP2 = ["<=", ">=", "==", "!=", "&&", "||", "<<", ">>"]
UNOP1 = "-+!~*&"
ASSIGN2 = ["+=", "-=", "*=", "/=", "%=", "&=", "|=", "^="]
ASSIGN3 = ["<<=", ">>="]
STR_CHARS = "".join(chr(c) for c in range(32, 127) if chr(c) not in '"\\?%:')
CHR_CHARS = "".join(chr(c) for c in range(32, 127) if chr(c) not in "'\\?")
COMMENT_CHARS = "".join(chr(c) for c in range(32, 127) if chr(c) not in "\\?%:")


class Slot:
    """a symbolic piece of text of fixed length.  kind decides the character classes / alternatives."""
    _n = 0

    def __init__(self, kind, default, role=None):
        Slot._n += 1
        self.id = Slot._n
        self.kind = kind
        self.default = default
        self.role = role or kind
        self.vars = None

    def __len__(self):
        return len(self.default)

    def __repr__(self):
        return f"<{self.kind}:{self.default}>"

    # -- symbolic binding
    def bind(self, ex, tag, narrow_first=False):
        """create the Vars and assert the class constraints in ex.solver; returns the list of items.
        narrow_first: the first character avoids l/u/L/U (the lexer's literal-prefix test forks on them);
        the harness rotates which identifiers get the full class."""
        k, n = self.kind, len(self.default)
        low0 = "abcdefghijkmnopqrstvwxyz" if narrow_first and self.default[0] not in "lu" else LOW
        up0 = "ABCDEFGHIJKMNOPQRSTVWXYZ" if narrow_first and self.default[0] not in "LU" else UP
        s = ex.solver

        def mk(i, chars):
            v = Var(f"s{tag}_{self.id}_{i}", map(ord, chars))
            s.add(v.domain_constraint())
            return v
        if k in ("id", "fname", "idnp"):
            vs = [mk(i, low0 if i == 0 else LOWD) for i in range(n)]
            self._exclude(s, vs, C_KEYWORDS + SPECIAL_NAMES)
            if k == "idnp" and n >= 2:
                # an identifier WITHOUT one of the Norm's prefixes (its naming class): not s_ u_ e_ t_ g_
                s.add(z3.Not(z3.And(vs[1].z == ord("_"), z3.Or([vs[0].z == ord(c) for c in "suetg"]))))
        elif k.startswith("pid:"):          # prefixed identifier  g_xxx / t_xxx / s_xxx ...
            pre = k[4:]
            vs = list(pre) + [mk(i, LOWD) for i in range(len(pre), n)]
        elif k == "macro":
            vs = [mk(i, up0 if i == 0 else UPD) for i in range(n)]
            self._exclude(s, vs, ["NULL"])
        elif k == "dec":
            vs = [mk(i, "123456789" if i == 0 else "0123456789") for i in range(n)]
        elif k == "hex":
            vs = ["0", mk(1, "xX")] + [mk(i, "0123456789abcdefABCDEF") for i in range(2, n)]
        elif k == "oct":
            vs = ["0"] + [mk(i, "01234567") for i in range(1, n)]
        elif k == "chr":
            vs = ["'", mk(1, CHR_CHARS), "'"]
        elif k == "str":
            vs = ['"'] + [mk(i, STR_CHARS) for i in range(1, n - 1)] + ['"']
        elif k == "binop1":
            vs = [mk(0, BINOP1)]
        elif k == "unop1":
            vs = [mk(0, UNOP1)]
        elif k == "binop2":
            vs = [mk(0, "".join(sorted({o[0] for o in BINOP2}))), mk(1, "".join(sorted({o[1] for o in BINOP2})))]
            s.add(z3.Or([z3.And(vs[0].z == ord(o[0]), vs[1].z == ord(o[1])) for o in BINOP2]))
        elif k == "assign2":
            vs = [mk(0, "".join(sorted({o[0] for o in ASSIGN2}))), "="]
        elif k == "incdec":
            vs = [mk(0, "+-"), None]
            vs[1] = vs[0]
        elif k == "path":
            vs = [mk(i, (low0 if i == 0 else LOW + "0123456789_")) for i in range(n)]
        elif k == "comment":
            vs = [mk(i, COMMENT_CHARS) for i in range(n)]
            for a, b in zip(vs, vs[1:]):
                s.add(z3.Not(z3.And(a.z == ord("*"), b.z == ord("/"))))
                s.add(z3.Not(z3.And(a.z == ord("/"), b.z == ord("*"))))
        else:
            raise ValueError(k)
        self.vars = vs
        return vs

    @staticmethod
    def _exclude(s, vs, words):
        for w in words:
            if len(w) != len(vs):
                continue
            diffs = []
            possible = True
            for x, ch in zip(vs, w):
                if isinstance(x, str):
                    if x != ch:
                        possible = False
                        break
                elif ord(ch) in x.dom:
                    diffs.append(x.z != ord(ch))
                else:
                    possible = False
                    break
            if possible and diffs:
                s.add(z3.Or(diffs))
            elif possible:
                s.add(z3.BoolVal(False))


class Line:
    def __init__(self, parts, kind, depth=0, func=None, **meta):
        self.parts = list(parts)
        self.kind = kind
        self.depth = depth
        self.func = func
        self.meta = meta

    def default_text(self):
        return "".join(p if isinstance(p, str) else p.default for p in self.parts)

    def slots(self):
        return [p for p in self.parts if isinstance(p, Slot)]

    def copy(self):
        l = Line(self.parts, self.kind, self.depth, self.func, **self.meta)
        return l


def width(text, col=1):
    for c in text:
        if c == "\t":
            col += 4 - (col - 1) % 4
        else:
            col += 1
    return col - 1


HEADER_TMPL = """/* ************************************************************************** */
/*                                                                            */
/*                                                        :::      ::::::::   */
/*   {file:<51}:+:      :+:    :+:   */
/*                                                    +:+ +:+         +:+     */
/*   By: jdoe <jdoe@student.42.fr>                  +#+  +:+       +#+        */
/*                                                +#+#+#+#+#+   +#+           */
/*   Created: 2018/03/29 13:47:14 by jdoe              #+#    #+#             */
/*   Updated: 2018/05/02 21:16:08 by jdoe             ###   ########.fr       */
/*                                                                            */
/* ************************************************************************** */"""


def header_lines(fname):
    return [Line([t], "header") for t in HEADER_TMPL.format(file=fname).split("\n")]


class Prog:
    def __init__(self, name, lines, meta=None):
        self.name = name
        self.lines = lines
        self.meta = meta or {}

    def default_text(self):
        return "".join(l.default_text() + "\n" for l in self.lines)

    def slots(self):
        seen, out = set(), []
        for l in self.lines:
            for s in l.slots():
                if s.id not in seen:
                    seen.add(s.id)
                    out.append(s)
        return out

    def items(self, symbolic_ids, ex=None, tag="", full_first=()):
        """text as a list of items; slots whose id is in symbolic_ids are bound to Vars"""
        bound = {}
        out = []
        for l in self.lines:
            for p in l.parts:
                if isinstance(p, str):
                    out += list(p)
                elif p.id in symbolic_ids:
                    if p.id not in bound:
                        bound[p.id] = p.bind(ex, tag, narrow_first=p.id not in full_first)
                    out += bound[p.id]
                else:
                    out += list(p.default)
            out.append("\n")
        return out, bound

    def clone(self):
        return Prog(self.name, [l.copy() for l in self.lines], dict(self.meta))

    def line_no(self, line):
        return self.lines.index(line) + 1


# ---------------------------------------------------------------------------------------------- generator
TYPES_SIMPLE = ["int", "char", "long", "short", "float", "double", "unsigned int", "unsigned char", "long long",
                "size_t"]
# return types of prototypes: one to four words, lengths on both sides of every tab stop
PROTO_TYPES = TYPES_SIMPLE + ["unsigned long", "unsigned long long", "const char", "const unsigned char", "const unsigned int",
                              "const long long", "unsigned short", "const unsigned short", "const int", "const unsigned long long"]


class Gen:
    def __init__(self, seed, ident_len=(1, 6), expr_depth=2, max_stmts=6, max_funcs=2, nest=2, rich=True):
        self.r = random.Random(seed)
        self.ident_len = ident_len
        self.expr_depth = expr_depth
        self.max_stmts = max_stmts
        self.max_funcs = max_funcs
        self.nest = nest
        self.rich = rich
        self.used = set()

    # ---- names
    def _name(self, n, alphabet=LOW):
        r = self.r
        for _ in range(200):
            s = r.choice(alphabet) + "".join(r.choice(alphabet + ("0123456789_" if alphabet == LOW else "0123456789_"))
                                             for _ in range(n - 1))
            if s.endswith("_") or "__" in s:
                continue
            if s not in C_KEYWORDS and s not in SPECIAL_NAMES and s not in self.used:
                self.used.add(s)
                return s
        raise RuntimeError("name space exhausted")

    def ident(self, role="id"):
        n = self.r.randint(*self.ident_len)
        return Slot("id", self._name(n), role)

    def fname(self):
        n = self.r.randint(max(2, self.ident_len[0]), max(3, self.ident_len[1]))
        return Slot("fname", self._name(n), "fname")

    def pid(self, pre):
        n = self.r.randint(1, max(1, self.ident_len[1] - 2))
        return Slot("pid:" + pre, pre + self._name(n), "pid")

    def macro(self):
        n = self.r.randint(1, self.ident_len[1])
        return Slot("macro", self._name(n, UP), "macro")

    def const(self, forms=None):
        r = self.r
        form = r.choice(forms or ["dec", "dec", "dec", "hex", "oct", "chr", "zero"])
        if form == "dec":
            n = r.randint(1, 4)
            return Slot("dec", str(r.randint(1, 9)) + "".join(r.choice("0123456789") for _ in range(n - 1)))
        if form == "hex":
            n = r.randint(1, 4)
            return Slot("hex", "0x" + "".join(r.choice("0123456789abcdef") for _ in range(n)))
        if form == "oct":
            return Slot("oct", "0" + "".join(r.choice("01234567") for _ in range(r.randint(1, 3))))
        if form == "chr":
            return Slot("chr", "'" + r.choice("abcxyz019 ;{(") + "'")
        return "0"

    def string(self):
        r = self.r
        n = r.randint(0, 5)
        return Slot("str", '"' + "".join(r.choice("abc xyz%d;{}()") for _ in range(n)) + '"')

    def type_(self, void=False, user=None):
        r = self.r
        opts = list(TYPES_SIMPLE)
        if void:
            opts += ["void", "void"]
        t = r.choice(opts)
        if user and r.random() < 0.2:
            return [user]
        return [t]

    # ---- expressions (parts lists)
    def prim(self, env, depth):
        r = self.r
        k = r.choice(["id", "id", "id", "const", "const", "call", "index", "member"] if self.rich
                     else ["id", "id", "const"])
        v = r.choice(env["vars"]) if env["vars"] else None
        if k == "id" or v is None and k in ("index", "member"):
            return [v] if v else [self.const()]
        if k == "const":
            return [self.const()]
        if k == "str":
            return [self.string()]
        if k == "null":
            return ["NULL"]
        if k == "call":
            f = r.choice(env["funcs"]) if env["funcs"] and r.random() < 0.5 else env["ext"]()
            n = r.randint(0, 3)
            parts = [f, "("]
            for i in range(n):
                if i:
                    parts.append(", ")
                parts += self.arg(env, max(0, depth - 1))
            parts.append(")")
            return parts
        if k == "index":
            return [v, "["] + self.subscript(env) + ["]"]
        if k == "member":
            return [v, r.choice(["->", "."]), env["field"]()]
        raise AssertionError(k)

    def subscript(self, env):
        """array subscript: a primary, or (rich) an expression with a binary operator / sizeof / character constant"""
        if not self.rich or self.r.random() < 0.5:
            return self.expr(env, 0)
        k = self.r.choice(["bin", "bin", "sizeof", "chr"])
        if k == "bin":
            op = self.r.choice(["%", "&", "+", "-", "*", "<", "==", ">>"])
            s = Slot("binop1" if len(op) == 1 else "binop2", op)
            return self.prim_simple(env) + [" ", s, " "] + [self.const(["dec"])]
        if k == "sizeof":
            return ["sizeof(", self.r.choice(TYPES_SIMPLE[:6]), ") - 1"]
        return [self.const(["chr"]), " - ", self.const(["chr"])]

    def arg(self, env, depth):
        """a call argument / right-hand side: an expression or a whole string literal"""
        if self.rich and self.r.random() < 0.15:
            return [self.string()]
        if self.rich and self.r.random() < 0.08:
            return ["NULL"]
        return self.expr(env, depth)

    def expr(self, env, depth):
        r = self.r
        if depth <= 0:
            k = r.choice(["prim", "prim", "prim", "unop"])
        else:
            k = r.choice(["prim", "unop", "bin", "bin", "bin", "paren", "cast", "sizeof"] if self.rich
                         else ["prim", "bin", "bin"])
        if k == "prim":
            return self.prim(env, depth)
        if k == "unop":
            u = r.choice(["-", "!", "~", "*", "&", "++", "--", "+"] if env.get("side") else ["-", "!", "~", "*", "&", "+"])
            p = self.prim_simple(env)
            if u in ("++", "--") and not env["vars"]:
                u = "-"
            if u in ("++", "--"):
                return ([Slot("incdec", u)] + p) if r.random() < 0.5 else (p + [Slot("incdec", u)])
            return [Slot("unop1", u)] + p
        if k == "bin":
            op = r.choice(list(BINOP1) + BINOP2)
            s = Slot("binop1" if len(op) == 1 else "binop2", op)
            return self.expr(env, depth - 1) + [" ", s, " "] + self.expr(env, depth - 1)
        if k == "paren":
            return ["("] + self.expr(env, depth - 1) + [")"]
        if k == "cast":
            t = r.choice(TYPES_SIMPLE[:6])
            star = r.choice(["", "", " *"])
            return ["(", t + star, ")"] + self.prim_simple(env)
        if k == "sizeof":
            return ["sizeof(", r.choice(TYPES_SIMPLE[:6]), ")"]
        raise AssertionError(k)

    def prim_simple(self, env):
        v = self.r.choice(env["vars"]) if env["vars"] else None
        return [v] if v else [self.const(["dec"])]

    def cond(self, env):
        env["side"] = False
        return self.expr(env, self.r.randint(0, self.expr_depth))

    # ---- statements
    def simple(self, env, in_loop):
        r = self.r
        ks = ["assign", "assign", "assign", "opassign", "incdec", "call", "return"]
        if in_loop:
            ks += ["break", "continue"]
        k = r.choice(ks)
        env["side"] = k in ("call", "return")
        if k == "break":
            return ["break ;"], "break"
        if k == "continue":
            return ["continue ;"], "continue"
        if k == "return":
            if env["void"]:
                return ["return ;"], "return"
            return ["return ("] + self.arg(env, r.randint(0, self.expr_depth)) + [");"], "return"
        lv = self.lval(env)
        if k == "assign":
            return lv + [" = "] + self.arg(env, r.randint(0, self.expr_depth)) + [";"], "assign"
        if k == "opassign":
            op = r.choice(ASSIGN2 + ASSIGN3)
            s = Slot("assign2", op) if len(op) == 2 else op
            return lv + [" ", s, " "] + self.expr(env, r.randint(0, 1)) + [";"], "opassign"
        if k == "incdec":
            return lv + [Slot("incdec", r.choice(["++", "--"])), ";"], "incdec"
        if k == "call":
            f = r.choice(env["funcs"]) if env["funcs"] and r.random() < 0.5 else env["ext"]()
            n = r.randint(0, 3)
            parts = [f, "("]
            for i in range(n):
                if i:
                    parts.append(", ")
                parts += self.arg(env, r.randint(0, 1))
            return parts + [");"], "call"
        raise AssertionError(k)

    def lval(self, env):
        r = self.r
        v = r.choice(env["vars"]) if env["vars"] else env["ext"]()
        k = r.choice(["id", "id", "id", "deref", "index", "member"]) if self.rich else "id"
        if k == "id":
            return [v]
        if k == "deref":
            return ["*", v]
        if k == "index":
            return [v, "["] + self.subscript(env) + ["]"]
        return [v, r.choice(["->", "."]), env["field"]()]

    def fits(self, parts, depth):
        text = "\t" * depth + "".join(p if isinstance(p, str) else p.default for p in parts)
        return width(text) <= 80

    def stmts(self, env, depth, budget, in_loop, func):
        """returns list of Lines using at most `budget` lines"""
        r = self.r
        out = []
        n = r.randint(1, max(1, min(self.max_stmts, budget)))
        while n > 0 and budget - len(out) > 0:
            n -= 1
            left = budget - len(out)
            k = r.choice(["simple", "simple", "simple", "if", "while"]) if depth - 1 < self.nest and left >= 2 else "simple"
            if k == "simple":
                for _ in range(20):
                    parts, sk = self.simple(env, in_loop)
                    if self.fits(parts, depth):
                        break
                else:
                    parts, sk = [env["vars"][0] if env["vars"] else "x", " = 0;"], "assign"
                out.append(Line(["\t" * depth] + parts, "stmt", depth, func, stmt=sk))
                if sk in ("return", "break", "continue") and r.random() < 0.7:
                    break
                continue
            # control structure
            block = []
            kw = "if" if k == "if" else "while"
            for _ in range(20):
                c = self.cond(env)
                if self.fits([kw + " ("] + c + [")"], depth):
                    break
            else:
                c = ["1"]
            block.append(Line(["\t" * depth, kw + " ("] + c + [")"], "ctrl", depth, func, kw=kw))
            block += self.body(env, depth, left - 1 - len(block), in_loop or kw == "while", func)
            if kw == "if":
                while r.random() < 0.3 and left - len(block) >= 2:
                    for _ in range(20):
                        c = self.cond(env)
                        if self.fits(["else if ("] + c + [")"], depth):
                            break
                    else:
                        c = ["1"]
                    block.append(Line(["\t" * depth, "else if ("] + c + [")"], "ctrl", depth, func, kw="else if"))
                    block += self.body(env, depth, left - 1 - len(block), in_loop, func)
                if r.random() < 0.4 and left - len(block) >= 2:
                    block.append(Line(["\t" * depth, "else"], "ctrl", depth, func, kw="else"))
                    block += self.body(env, depth, left - 1 - len(block), in_loop, func)
            if len(block) <= left:
                out += block
        return out

    def body(self, env, depth, budget, in_loop, func):
        r = self.r
        if budget >= 3 and r.random() < 0.5:
            inner = self.stmts(env, depth + 1, budget - 2, in_loop, func)
            return ([Line(["\t" * depth + "{"], "lbrace", depth, func)] + inner +
                    [Line(["\t" * depth + "}"], "rbrace", depth, func)])
        for _ in range(20):
            parts, sk = self.simple(env, in_loop)
            if self.fits(parts, depth + 1):
                break
        else:
            parts, sk = ["return ;" if env["void"] else "return (0);"], "return"
        return [Line(["\t" * (depth + 1)] + parts, "stmt", depth + 1, func, stmt=sk)]

    # ---- declarations with alignment
    @staticmethod
    def align(rows, indent):
        """rows: list of (type_text, name_parts). Returns for each row the number of tabs between type and name
        so that all names start on the same tab stop."""
        ends = [width("\t" * indent + t) for t, _ in rows]          # last column used by the type
        target = max((e // 4 + 1) * 4 + 1 for e in ends)             # first tab stop after the longest type
        out = []
        for e in ends:
            col = e + 1
            n = 0
            while col < target:
                col += 4 - (col - 1) % 4
                n += 1
            out.append(n)
        return out

    def func(self, idx, funcs, user_types, fields, static=False):
        r = self.r
        void = r.random() < 0.3
        rtype = "void" if void else r.choice(TYPES_SIMPLE)
        star = "" if void or r.random() < 0.7 else "*"
        name = self.fname()
        nparams = r.randint(0, 4)
        params = []
        for _ in range(nparams):
            t = r.choice(TYPES_SIMPLE + user_types)
            st = r.choice(["", "", "*", "**"])
            cn = "const " if r.random() < 0.15 else ""
            params.append((cn + t + " " + st, self.ident("param")))
        vars_ = [p for _, p in params]
        ndecl = r.randint(0, 5)
        decls = []
        for _ in range(ndecl):
            t = r.choice(TYPES_SIMPLE + user_types)
            st = r.choice(["", "", "", "*", "**"])
            v = self.ident("local")
            arr = ["[", self.const(["dec"]), "]"] if r.random() < 0.15 else []
            decls.append((t, st, v, arr))
            vars_.append(v)
        ext_names = []

        def ext():
            if ext_names and r.random() < 0.6:
                return r.choice(ext_names)
            s = self.fname()
            ext_names.append(s)
            return s

        def field():
            if fields and r.random() < 0.7:
                return r.choice(fields)
            s = self.ident("field")
            fields.append(s)
            return s
        env = dict(vars=vars_, funcs=list(funcs), ext=ext, field=field, void=void)
        sig = [("static " if static else "") + rtype, "\t", star, name, "("]
        if not params:
            sig.append("void")
        for i, (t, p) in enumerate(params):
            if i:
                sig.append(", ")
            sig += [t, p]
        sig.append(")")
        lines = [Line(sig, "func_sig", 0, idx, name=name, nparams=len(params)),
                 Line(["{"], "func_open", 0, idx)]
        if decls:
            tabs = self.align([(t, None) for t, _, _, _ in decls], 1)
            for (t, st, v, arr), nt in zip(decls, tabs):
                lines.append(Line(["\t", t, "\t" * nt, st, v] + arr + [";"], "decl", 1, idx, var=v))
            lines.append(Line([""], "blank_decl", 0, idx))
        budget = 25 - (len(lines) - 2)
        body = self.stmts(env, 1, max(1, min(budget, 3 * self.max_stmts)), False, idx)
        if not void and not (body and body[-1].kind == "stmt" and body[-1].meta.get("stmt") == "return" and body[-1].depth == 1):
            if len(body) >= budget:
                body = body[:budget - 1]
                # do not cut a block open
                while body and self._open_blocks(body):
                    body.pop()
            env["side"] = False
            for _ in range(20):
                rp = ["return ("] + self.expr(env, 0) + [");"]
                if self.fits(rp, 1):
                    break
            else:
                rp = ["return (0);"]
            body.append(Line(["\t"] + rp, "stmt", 1, idx, stmt="return"))
        lines += body
        lines.append(Line(["}"], "func_close", 0, idx))
        # the signature must fit too
        if width(lines[0].default_text()) > 80:
            return self.func(idx, funcs, user_types, fields, static)
        return lines, name

    @staticmethod
    def _open_blocks(body):
        d = 0
        for l in body:
            if l.kind == "lbrace":
                d += 1
            elif l.kind == "rbrace":
                d -= 1
        if d != 0:
            return True
        # a control line must be followed by its body
        return bool(body) and body[-1].kind == "ctrl"

    def cfile(self, name="t.c", header=True):
        r = self.r
        lines = []
        if header:
            lines += header_lines(name)
            lines.append(Line([""], "blank"))
        ninc = r.randint(0, 2)
        for _ in range(ninc):
            n = r.randint(1, 6)
            p = Slot("path", self._name(n))
            lines.append(Line(['#include "', p, '.h"'] if r.random() < 0.5 else ["#include <", p, ".h>"], "include"))
        ndef = r.randint(0, 2)
        for _ in range(ndef):
            val = r.choice([[self.const(["dec", "hex", "oct", "chr"])], [self.string()], []])
            lines.append(Line(["#define ", self.macro()] + ([" "] + val if val else []), "define"))
        if ninc or ndef:
            lines.append(Line([""], "blank"))
        nglob = r.randint(0, 2)
        if nglob:
            rows = []
            for _ in range(nglob):
                q = r.choice(["static ", "static const ", "const "])
                t = q + r.choice(TYPES_SIMPLE)
                st = r.choice(["", "", "*"])
                g = self.pid("g_")
                init = r.choice([[], [" = ", self.const(["dec", "hex", "zero"])]])
                if st and init:
                    init = [" = ", "NULL"] if r.random() < 0.5 else []
                rows.append((t, st, g, init))
            tabs = self.align([(t, None) for t, _, _, _ in rows], 0)
            for (t, st, g, init), nt in zip(rows, tabs):
                lines.append(Line([t, "\t" * nt, st, g] + init + [";"], "global"))
            lines.append(Line([""], "blank"))
        nproto = r.choice([0, 0, 1, 2, 3])
        if nproto:
            rows = []
            for _ in range(nproto):
                st = "static " if r.random() < 0.6 else ""
                void = r.random() < 0.2
                t = st + ("void" if void else r.choice(PROTO_TYPES))
                star = "" if void or r.random() < 0.6 else "*"
                np_ = r.randint(0, 3)
                ps = [(r.choice(TYPES_SIMPLE) + " " + r.choice(["", "", "*"]), self.ident("param")) for _ in range(np_)]
                rows.append((t, star, self.fname(), ps))
            tabs = self.align([(t, None) for t, _, _, _ in rows], 0)
            for (t, star, f, ps), nt in zip(rows, tabs):
                parts = [t, "\t" * nt, star, f, "("]
                if not ps:
                    parts.append("void")
                for i, (pt, pp) in enumerate(ps):
                    if i:
                        parts.append(", ")
                    parts += [pt, pp]
                parts.append(");")
                if width("".join(x if isinstance(x, str) else x.default for x in parts)) > 80:
                    parts = [t, "\t" * nt, star, f, "(void);"]
                lines.append(Line(parts, "proto"))
            lines.append(Line([""], "blank"))
        nf = r.randint(1, self.max_funcs)
        funcs = []
        fields = []
        flines = []
        for i in range(nf):
            fl, name_slot = self.func(i, funcs, [], fields, static=r.random() < 0.3)
            funcs.append(name_slot)
            flines.append(fl)
        # optional prototypes for the static ones (aligned block)
        for i, fl in enumerate(flines):
            if i:
                lines.append(Line([""], "blank"))
            lines += fl
        return Prog(name, lines, dict(nfuncs=nf))

    def hfile(self, name="t.h"):
        r = self.r
        base = name.rsplit("/", 1)[-1]
        guard = base.upper().replace(".", "_")
        lines = header_lines(base)
        lines.append(Line([""], "blank"))
        lines.append(Line(["#ifndef " + guard], "guard_ifndef"))
        lines.append(Line(["# define " + guard], "guard_define"))
        lines.append(Line([""], "blank"))
        ninc = r.randint(0, 2)
        for _ in range(ninc):
            p = Slot("path", self._name(r.randint(1, 6)))
            lines.append(Line(["# include <", p, ".h>"], "include"))
        ndef = r.randint(0, 2)
        for _ in range(ndef):
            lines.append(Line(["# define ", self.macro(), " ", self.const(["dec", "hex"])], "define"))
        if ninc or ndef:
            lines.append(Line([""], "blank"))
        user_types = []
        nut = r.randint(0, 2)
        for _ in range(nut):
            kind = r.choice(["struct", "struct", "union", "enum"])
            tag = self.pid({"struct": "s_", "union": "u_", "enum": "e_"}[kind])
            tname = self.pid("t_")
            plain = r.random() < 0.35          # a plain (non-typedef) block declaration: `struct s_x` / `{` ... `};`
            lines.append(Line([("" if plain else "typedef ") + kind + " ", tag], "utype_open", plain=plain, tag=tag, ukind=kind))
            lines.append(Line(["{"], "utype_lbrace"))
            if kind == "enum":
                n = r.randint(1, 4)
                for i in range(n):
                    lines.append(Line(["\t", self.macro()] + ([","] if i < n - 1 else []), "enumerator", 1))
                lines.append(Line(["};"] if plain else ["}\t", tname, ";"], "utype_close"))
            else:
                n = r.randint(1, 4)
                rows = []
                for _ in range(n):
                    t = r.choice(TYPES_SIMPLE + (["struct " + tag.default] if kind == "struct" else []))
                    st = r.choice(["", "", "*"])
                    if t.startswith("struct "):
                        st = "*"
                    rows.append((t, st, self.ident("field")))
                tabs = self.align([(t, None) for t, _, _ in rows], 1)
                # the typedef name must sit on the same column as the members
                for (t, st, v), nt in zip(rows, tabs):
                    parts = ["\t", t, "\t" * nt, st, v, ";"]
                    if t.startswith("struct "):
                        parts = ["\t", "struct ", tag, "\t" * nt, st, v, ";"]
                    lines.append(Line(parts, "member", 1))
                col = width("\t" + rows[0][0] + "\t" * tabs[0]) + 1
                ntab = (col - 1) // 4 - 0
                lines.append(Line(["};"] if plain else ["}", "\t" * max(1, ntab), tname, ";"], "utype_close"))
            lines.append(Line([""], "blank"))
            if not plain:
                user_types.append(tname.default)
        nproto = r.randint(1, 4)
        rows = []
        for _ in range(nproto):
            void = r.random() < 0.3
            t = "void" if void else r.choice(PROTO_TYPES + user_types)
            st = "" if void or r.random() < 0.6 else "*"
            f = self.fname()
            np_ = r.randint(0, 4)
            ps = []
            for _ in range(np_):
                pt = r.choice(TYPES_SIMPLE + user_types)
                ps.append((pt + " " + r.choice(["", "", "*"]), self.ident("param")))
            rows.append((t, st, f, ps))
        tabs = self.align([(t, None) for t, _, _, _ in rows], 0)
        for (t, st, f, ps), nt in zip(rows, tabs):
            parts = [t, "\t" * nt, st, f, "("]
            if not ps:
                parts.append("void")
            for i, (pt, p) in enumerate(ps):
                if i:
                    parts.append(", ")
                parts += [pt, p]
            parts.append(");")
            if width("".join(x if isinstance(x, str) else x.default for x in parts)) > 80:
                parts = [t, "\t" * nt, st, f, "(void);"]
            lines.append(Line(parts, "proto"))
        lines.append(Line([""], "blank"))
        lines.append(Line(["#endif"], "guard_endif"))
        return Prog(name, lines, dict(guard=guard))


def program(seed, tier="quick", kind=None):
    """deterministic conforming program number `seed`"""
    r = random.Random(seed * 7919 + 13)
    big = tier == "thorough"
    g = Gen(seed, ident_len=(1, 10 if big else 6), expr_depth=3 if big else 2, max_stmts=8 if big else 5,
            max_funcs=5 if big else 2, nest=3 if big else 2)
    kind = kind or ("h" if r.random() < 0.25 else "c")
    if kind == "h":
        return g.hfile("t%d.h" % seed)
    return g.cfile("t%d.c" % seed)


# ---------------------------------------------------------------------------------------------- micro skeletons
MICRO_TEMPLATES = [
    "x = a {B} {U}b;", "x = {U}a {B} b;", "x = (a {B} b) {B} {U}c;", "x = {U}(a {B} b);",
    "return ({U}a {B} b);", "x = (int){U}a;", "x = (int){C} {B} a;", "x = (char *){S};", "x = (long)a {B} {U}b;",
    "f(a {B} b, {U}c);", "f({U}a, {S}, {C});", "x {A} a {B} b;", "x {A} {U}a;", "p[a {B} b] = {U}c;",
    "x = a{I};", "{I}a;", "a{I};", "x = sizeof(int) {B} a;", "x = s->b {B} {U}t.d;", "x = *p {B} {U}*q;",
    "x = a {B} b {B} c;", "x = a {B} ({U}b {B} c);", "x = f(a) {B} {U}g(b);", "x = a[b] {B} {U}p[c];",
    "x = a {B} {U}(b);", "x = (int *){U}a;", "x = (t_s *){C};", "x = a {B} {U}f(b);",
    "f(a{I} {B} b);", "return (a{I} {B} b);", "f({I}a {B} b);", "x = (a) {B} b;", "x = (a) {B} (b);", "f((a) {B} b);",
    "x = {N} {B} {U}{N};", "x = {U}{N};", "return ({U}{N});", "x = (a {B} b);", "x = (int)(a {B} b);",
]
MICRO_CTRL = ["if (a {B} {U}b)", "while (a {B} b {B} {U}c)", "if ({U}a)", "if ((a {B} b) {B} c)", "while ({U}f(a) {B} b)"]


def _expand(tmpl, bsizes):
    """template -> parts list; {B} slots take their length from bsizes"""
    import re
    parts = []
    bi = 0
    names = {}

    def ident(n):
        if n not in names:
            names[n] = Slot("id", n * 3 if len(n) == 1 else n)     # three characters: room for prefixes / suffixes such as _t
        return names[n]
    for tok in re.split(r"(\{[A-Z]\}|[a-z]+)", tmpl):
        if not tok:
            continue
        if tok == "{B}":
            parts.append(Slot("binop1", "+") if bsizes[bi] == 1 else Slot("binop2", "=="))
            bi += 1
        elif tok == "{U}":
            parts.append(Slot("unop1", "-"))
        elif tok == "{I}":
            parts.append(Slot("incdec", "++"))
        elif tok == "{A}":
            parts.append(Slot("assign2", "+="))
        elif tok == "{C}":
            parts.append(Slot("chr", "'a'"))
        elif tok == "{S}":
            parts.append(Slot("str", '"ab"'))
        elif tok == "{N}":
            parts.append(Slot("dec", "42"))
        elif tok.isalpha() and tok not in ("int", "char", "long", "return", "sizeof", "if", "while"):
            parts.append(ident(tok) if tok not in ("f", "g") else tok)
        else:
            parts.append(tok)
    return parts


def micro_programs():
    """small conforming files, one statement shape each, every operator slot symbolic"""
    out = []
    decl = [Line(["\tint\t\tx;"], "decl", 1, 0), Line(["\tint\t\ta;"], "decl", 1, 0), Line(["\tint\t\t*p;"], "decl", 1, 0),
            Line(["\tt_s\t\t*s;"], "decl", 1, 0), Line(["\tt_s\t\tt;"], "decl", 1, 0), Line([""], "blank_decl", 0, 0)]
    k = 0
    for tmpl in MICRO_TEMPLATES + MICRO_CTRL:
        nb = tmpl.count("{B}")
        for mask in range(2 ** nb):
            bs = [1 + ((mask >> i) & 1) for i in range(nb)]
            parts = _expand(tmpl, bs)
            name = "m%d.c" % k
            lines = header_lines(name) + [Line([""], "blank"),
                                          Line(["int\tfn(int b, int c, int *q)"], "func_sig", 0, 0), Line(["{"], "func_open", 0, 0)]
            lines += [l.copy() for l in decl]
            if tmpl in MICRO_CTRL:
                lines.append(Line(["\t"] + parts, "ctrl", 1, 0))
                lines.append(Line(["\t\tx = 0;"], "stmt", 2, 0))
            else:
                lines.append(Line(["\t"] + parts, "stmt", 1, 0))
            if not tmpl.startswith("return"):
                lines.append(Line(["\treturn (0);"], "stmt", 1, 0))
            lines.append(Line(["}"], "func_close", 0, 0))
            out.append(normalise_indent(Prog(name, lines, dict(template=tmpl, bsizes=bs))))
            k += 1
    return out


# ---------------------------------------------------------------------------------------------- boundary-maximal programs
def maximal_programs():
    """conforming files that sit exactly AT every numeric limit (25 lines, 4 parameters, 5 variables, 5 functions,
    80 columns) and use continuation lines; identifiers are slots"""
    out = []

    def ids(n, ln=3):
        g = Gen(1000 + n)
        return [g.ident() for _ in range(n)]
    # 1. one function: 4 parameters, 5 variables, exactly 25 body lines, one statement of exactly 80 columns
    a, b, c, d, v1, v2, v3, v4, v5 = [Slot("id", x) for x in ("aa", "bb", "cc", "dd", "va", "vb", "vc", "vd", "ve")]
    name = "mx1.c"
    L = header_lines(name) + [Line([""], "blank")]
    L.append(Line(["int\t", Slot("fname", "compute"), "(int ", a, ", int ", b, ", char *", c, ", long ", d, ")"], "func_sig", 0, 0))
    L.append(Line(["{"], "func_open", 0, 0))
    for v in (v1, v2, v3, v4, v5):
        L.append(Line(["\tint\t", v, ";"], "decl", 1, 0, var=v))
    L.append(Line([""], "blank_decl", 0, 0))
    body = []
    for v, src in zip((v1, v2, v3, v4, v5), (a, b, a, b, a)):
        body.append(Line(["\t", v, " = ", src, ";"], "stmt", 1, 0, stmt="assign"))
    body.append(Line(["\twhile (", v1, " < ", v2, ")"], "ctrl", 1, 0, kw="while"))
    body.append(Line(["\t{"], "lbrace", 1, 0))
    body.append(Line(["\t\tif (", v3, " == ", v4, ")"], "ctrl", 2, 0, kw="if"))
    body.append(Line(["\t\t\tbreak ;"], "stmt", 3, 0, stmt="break"))
    # casts to user-defined types and a parenthesised lone identifier INSIDE a braced block of a function that sits exactly
    # at the line limit (anything that double-counts lines shows)
    body.append(Line(["\t\t", v1, " = (size_t)", v2, " + (", v3, ");"], "stmt", 2, 0, stmt="assign"))
    body.append(Line(["\t\t", v4, " = (t_len)", v1, ";"], "stmt", 2, 0, stmt="assign"))
    body.append(Line(["\t}"], "rbrace", 1, 0))
    body.append(Line(["\tputs(", c, ");"], "stmt", 1, 0, stmt="call"))
    pad = Slot("id", "x" * (80 - 4 - len("vb = 1 + ;")))
    body.append(Line(["\t", v2, " = 1 + ", pad, ";"], "stmt", 1, 0, stmt="assign"))
    body.append(Line(["\tfoo(", v1, ","], "stmt", 1, 0, stmt="call"))
    body.append(Line(["\t\t", v2, ","], "cont", 2, 0))
    body.append(Line(["\t\t", v3, ");"], "cont", 2, 0))
    body.append(Line(["\tif (", v4, " > 0"], "ctrl", 1, 0, kw="if"))
    body.append(Line(["\t\t&& ", v5, " < 9)"], "cont", 2, 0))
    body.append(Line(["\t\t", v5, " = 2;"], "stmt", 2, 0, stmt="assign"))
    while len(body) > 25 - 6 - 1:
        del body[0]
    while len(body) < 25 - 6 - 1:
        body.append(Line(["\t", v3, " += ", d, ";"], "stmt", 1, 0, stmt="opassign"))
    body.append(Line(["\treturn (", v5, ");"], "stmt", 1, 0, stmt="return"))
    assert 6 + len(body) == 25, len(body)
    L += body + [Line(["}"], "func_close", 0, 0)]
    out.append(Prog(name, L, dict(nfuncs=1, maximal="25 lines / 4 params / 5 vars / 80 columns / continuation lines")))
    # 2. exactly five functions, each with the maximum of 4 parameters
    name = "mx2.c"
    L = header_lines(name) + [Line([""], "blank")]
    for i in range(5):
        if i:
            L.append(Line([""], "blank"))
        p = [Slot("id", "p%d%s" % (i, ch)) for ch in "abcd"]
        f = Slot("fname", "fun%c" % "abcde"[i])
        L.append(Line([("static " if i % 2 else "") + "int\t", f, "(int ", p[0], ", int ", p[1], ", int ", p[2], ", int ", p[3], ")"], "func_sig", 0, i))
        L.append(Line(["{"], "func_open", 0, i))
        L.append(Line(["\treturn (", p[0], " + ", p[1], " + ", p[2], " + ", p[3], ");"], "stmt", 1, i, stmt="return"))
        L.append(Line(["}"], "func_close", 0, i))
    out.append(Prog(name, L, dict(nfuncs=5, maximal="5 functions x 4 params")))
    # 3. header with four-parameter prototypes and an 80-column prototype line
    name = "mx3.h"
    L = header_lines(name) + [Line([""], "blank"), Line(["#ifndef MX3_H"], "guard_ifndef"), Line(["# define MX3_H"], "guard_define"), Line([""], "blank")]
    q = [Slot("id", x) for x in ("pa", "pb", "pc", "pd")]
    L.append(Line(["int\t\t", Slot("fname", "first"), "(int ", q[0], ", int ", q[1], ", int ", q[2], ", int ", q[3], ");"], "proto"))
    n = 1
    while width("char\t*" + "y" * (n + 1) + "(void);") <= 80:
        n += 1
    longname = Slot("fname", "y" * n)
    L.append(Line(["char\t*", longname, "(void);"], "proto"))
    L += [Line([""], "blank"), Line(["#endif"], "guard_endif")]
    out.append(Prog(name, L, dict(maximal="4-param prototypes, 80-column prototype")))
    # 4. control-flow corner shapes: empty loop body on its own line, brace-less else, braced loop inside a
    #    brace-less if, a void function whose last statement is a control statement
    name = "mx4.c"
    s1, i1, n1 = Slot("id", "str"), Slot("id", "idx"), Slot("id", "num")
    L = header_lines(name) + [Line([""], "blank")]
    L.append(Line(["void\t", Slot("fname", "corner"), "(char *", s1, ", int ", n1, ")"], "func_sig", 0, 0))
    L.append(Line(["{"], "func_open", 0, 0))
    L.append(Line(["\tint\t", i1, ";"], "decl", 1, 0, var=i1))
    L.append(Line([""], "blank_decl", 0, 0))
    L.append(Line(["\t", i1, " = 0;"], "stmt", 1, 0, stmt="assign"))
    L.append(Line(["\twhile (", s1, "[", i1, "++])"], "ctrl", 1, 0, kw="while"))
    L.append(Line(["\t\t;"], "cont", 2, 0))
    L.append(Line(["\tif (", n1, " > 0)"], "ctrl", 1, 0, kw="if"))
    L.append(Line(["\t\t", n1, "--;"], "stmt", 2, 0, stmt="incdec"))
    L.append(Line(["\telse if (", n1, " < 0)"], "ctrl", 1, 0, kw="else if"))
    L.append(Line(["\t\t", n1, "++;"], "stmt", 2, 0, stmt="incdec"))
    L.append(Line(["\telse"], "ctrl", 1, 0, kw="else"))
    L.append(Line(["\t\t", i1, " = 1;"], "stmt", 2, 0, stmt="assign"))
    L.append(Line(["\tif (", i1, ")"], "ctrl", 1, 0, kw="if"))
    L.append(Line(["\t{"], "lbrace", 1, 0))
    L.append(Line(["\t\twhile (", n1, " < 9)"], "ctrl", 2, 0, kw="while"))
    L.append(Line(["\t\t{"], "lbrace", 2, 0))
    L.append(Line(["\t\t\t", n1, "++;"], "stmt", 3, 0, stmt="incdec"))
    L.append(Line(["\t\t\tif (", n1, " == 5)"], "ctrl", 3, 0, kw="if"))
    L.append(Line(["\t\t\t\tcontinue ;"], "stmt", 4, 0, stmt="continue"))
    L.append(Line(["\t\t}"], "rbrace", 2, 0))
    L.append(Line(["\t}"], "rbrace", 1, 0))
    L.append(Line(["\twhile (", i1, " < ", n1, ")"], "ctrl", 1, 0, kw="while"))
    L.append(Line(["\t\t", i1, "++;"], "stmt", 2, 0, stmt="incdec"))
    # an empty braced body as the LAST statement of the function
    L.append(Line(["\twhile (", i1, " > 99)"], "ctrl", 1, 0, kw="while"))
    L.append(Line(["\t{"], "lbrace", 1, 0))
    L.append(Line(["\t}"], "rbrace", 1, 0))
    L.append(Line(["}"], "func_close", 0, 0))
    L.append(Line([""], "blank"))
    L.append(Line(["int\t", Slot("fname", "after"), "(void)"], "func_sig", 0, 1))
    L.append(Line(["{"], "func_open", 0, 1))
    L.append(Line(["\treturn (0);"], "stmt", 1, 1, stmt="return"))
    L.append(Line(["}"], "func_close", 0, 1))
    # a void function whose LAST statement is the body of an else branch (and one ending in an else-if branch)
    pp = Slot("id", "ptr")
    L.append(Line([""], "blank"))
    L.append(Line(["void\t", Slot("fname", "last"), "(int *", pp, ")"], "func_sig", 0, 2))
    L.append(Line(["{"], "func_open", 0, 2))
    # a loop whose braced body is completely empty
    L.append(Line(["\twhile (*", pp, " > 9)"], "ctrl", 1, 2, kw="while"))
    L.append(Line(["\t{"], "lbrace", 1, 2))
    L.append(Line(["\t}"], "rbrace", 1, 2))
    L.append(Line(["\tif (*", pp, ")"], "ctrl", 1, 2, kw="if"))
    L.append(Line(["\t\t*", pp, " = 0;"], "stmt", 2, 2, stmt="assign"))
    L.append(Line(["\telse"], "ctrl", 1, 2, kw="else"))
    L.append(Line(["\t\t*", pp, " = 1;"], "stmt", 2, 2, stmt="assign"))
    L.append(Line(["}"], "func_close", 0, 2))
    L.append(Line([""], "blank"))
    L.append(Line(["void\t", Slot("fname", "lastb"), "(int *", pp, ")"], "func_sig", 0, 3))
    L.append(Line(["{"], "func_open", 0, 3))
    L.append(Line(["\tif (*", pp, " > 2)"], "ctrl", 1, 3, kw="if"))
    L.append(Line(["\t\t*", pp, " = 0;"], "stmt", 2, 3, stmt="assign"))
    L.append(Line(["\telse if (*", pp, ")"], "ctrl", 1, 3, kw="else if"))
    L.append(Line(["\t\treturn ;"], "stmt", 2, 3, stmt="return"))
    L.append(Line(["}"], "func_close", 0, 3))
    L.append(Line([""], "blank"))
    L.append(Line(["int\t", Slot("fname", "tail"), "(void)"], "func_sig", 0, 4))
    L.append(Line(["{"], "func_open", 0, 4))
    L.append(Line(["\treturn (1);"], "stmt", 1, 4, stmt="return"))
    L.append(Line(["}"], "func_close", 0, 4))
    out.append(Prog(name, L, dict(nfuncs=5, maximal="control-flow corner shapes")))
    # 5. declarations that LOOK like functions but are not (function-pointer global with initialiser, array globals with
    #    brace initialisers, prototypes, function-pointer parameter and local) next to exactly FOUR functions: one below
    #    the function limit, so that any miscount shows when one more function is appended (C19) or present (C01)
    name = "mx5.c"
    gh, gt, gn = Slot("pid:g_", "g_hook"), Slot("pid:g_", "g_tab"), Slot("pid:g_", "g_names")
    fa, ft, fp_, fm = Slot("fname", "apply"), Slot("fname", "third"), Slot("fname", "pick"), "main"
    pf, pa, pb, lo, se, ta = [Slot("id", x) for x in ("fn", "aa", "bb", "loc", "sel", "arg")]
    L = header_lines(name) + [Line([""], "blank"), Line(["#include <stdlib.h>"], "include"), Line([""], "blank")]
    L.append(Line(["static int\t(*", gh, ")(int) = NULL;"], "global"))
    L.append(Line(["static int\t", gt, "[3] = {1, 2, 3};"], "global"))
    L.append(Line(["static char\t*", gn, '[] = {"a", "b"};'], "global"))
    L.append(Line([""], "blank"))
    L.append(Line(["static int\t", fa, "(int (*", pf, ")(int, int), int ", pa, ", int ", pb, ");"], "proto"))
    L.append(Line(["static int\t", ft, "(int ", ta, ");"], "proto"))
    L.append(Line([""], "blank"))
    L.append(Line(["static int\t", fa, "(int (*", pf, ")(int, int), int ", pa, ", int ", pb, ")"], "func_sig", 0, 0))
    L.append(Line(["{"], "func_open", 0, 0))
    L.append(Line(["\tint\t(*", lo, ")(int, int);"], "decl", 1, 0, var=lo))
    L.append(Line([""], "blank_decl", 0, 0))
    L.append(Line(["\t", lo, " = ", pf, ";"], "stmt", 1, 0, stmt="assign"))
    L.append(Line(["\treturn (", lo, "(", pa, ", ", pb, "));"], "stmt", 1, 0, stmt="return"))
    L.append(Line(["}"], "func_close", 0, 0))
    L.append(Line([""], "blank"))
    L.append(Line(["int\t", fp_, "(int ", se, ")"], "func_sig", 0, 1))
    L.append(Line(["{"], "func_open", 0, 1))
    L.append(Line(["\tif (", se, ")"], "ctrl", 1, 1, kw="if"))
    L.append(Line(["\t\treturn (", gh, "(", se, "));"], "stmt", 2, 1, stmt="return"))
    L.append(Line(["\treturn (0);"], "stmt", 1, 1, stmt="return"))
    L.append(Line(["}"], "func_close", 0, 1))
    L.append(Line([""], "blank"))
    L.append(Line(["static int\t", ft, "(int ", ta, ")"], "func_sig", 0, 2))
    L.append(Line(["{"], "func_open", 0, 2))
    L.append(Line(["\treturn (", gt, "[", ta, "] + ", gn, "[0][0]);"], "stmt", 1, 2, stmt="return"))
    L.append(Line(["}"], "func_close", 0, 2))
    L.append(Line([""], "blank"))
    L.append(Line(["int\t", fm, "(void)"], "func_sig", 0, 3))
    L.append(Line(["{"], "func_open", 0, 3))
    L.append(Line(["\tif (", gh, ")"], "ctrl", 1, 3, kw="if"))
    L.append(Line(["\t\treturn (", gh, "(1));"], "stmt", 2, 3, stmt="return"))
    L.append(Line(["\treturn (", fa, "(NULL, ", ft, "(0), 2));"], "stmt", 1, 3, stmt="return"))
    L.append(Line(["}"], "func_close", 0, 3))
    out.append(Prog(name, L, dict(nfuncs=4, maximal="function-pointer / array globals, prototypes, function-pointer parameter and local, four functions")))
    # 6. constants of every C form inside conforming statements: escapes (simple, octal of 1-3 digits, hexadecimal) in
    #    character constants and strings, prefixes, every integer base and suffix family, decimal and hexadecimal floats
    name = "mx6.c"
    sv, vv = Slot("id", "str"), Slot("id", "val")
    L = header_lines(name) + [Line([""], "blank")]
    L.append(Line(["int\t", Slot("fname", "lits"), "(void)"], "func_sig", 0, 0))
    L.append(Line(["{"], "func_open", 0, 0))
    L.append(Line(["\tchar\t*", sv, ";"], "decl", 1, 0, var=sv))
    L.append(Line(["\tint\t\t", vv, ";"], "decl", 1, 0, var=vv))
    L.append(Line([""], "blank_decl", 0, 0))
    L.append(Line(["\t", sv, ' = "a\\tb\\n\\033[0m\\x1b\\\\\\"%d";'], "stmt", 1, 0, stmt="assign"))
    L.append(Line(["\t", vv, " = '\\0' + '\\n' + '\\033' + '\\x1b' + '\\\\' + '\\'' + '\"' + '\\7' + '\\12';"], "stmt", 1, 0, stmt="assign"))
    L.append(Line(["\t", vv, " += 0x1F + 017 + 0b101 + 10u + 10UL + 10ll + 1.5f + 1e3 + .5 + 5.;"], "stmt", 1, 0, stmt="opassign"))
    L.append(Line(["\t", vv, " += L'a' + sizeof(L\"wide\") + sizeof(u8\"u\") + sizeof(U\"x\") + u'b';"], "stmt", 1, 0, stmt="opassign"))
    L.append(Line(["\t", vv, " -= 1e-3 + 1E+3 + 0X1F + 0xAp-2 + 1.0L + 3ull + 07l + 0x1p3;"], "stmt", 1, 0, stmt="opassign"))
    L.append(Line(["\treturn (", vv, " + ", sv, "[0]);"], "stmt", 1, 0, stmt="return"))
    L.append(Line(["}"], "func_close", 0, 0))
    out.append(Prog(name, L, dict(nfuncs=1, maximal="constants of every C form")))
    # 7. a call followed by SEVERAL member accesses as the target of an assignment whose right-hand side holds separators
    #    (repaired in d91f532: only one `->member` was skipped, the statement was cut at the first comma and the rest was fatal)
    name = "mx7.c"
    lv, av, bv = Slot("id", "lst"), Slot("id", "one"), Slot("id", "two")
    L = header_lines(name) + [Line([""], "blank")]
    L.append(Line(["void\t", Slot("fname", "link"), "(t_list *", lv, ", int ", av, ", int ", bv, ")"], "func_sig", 0, 0))
    L.append(Line(["{"], "func_open", 0, 0))
    L.append(Line(["\tft_lstlast(", lv, ")->next = new_node(", av, ", ", bv, ");"], "stmt", 1, 0, stmt="assign"))
    L.append(Line(["\tft_lstlast(", lv, ")->next->prev = new_node(", av, ", ", bv, ");"], "stmt", 1, 0, stmt="assign"))
    L.append(Line(["\tft_lstlast(", lv, ")->next->next->content = pick(", av, " && ", bv, ", ", av, " || ", bv, ");"], "stmt", 1, 0, stmt="assign"))
    L.append(Line(["\tft_lstlast(", lv, ")->next->prev->size += ", av, ";"], "stmt", 1, 0, stmt="opassign"))
    # subscripts and `.member` in the chain (repaired in the follow-up fix: `f(x)[n] = g(p, q);`, `f(x)->tab[n] = ...` were fatal too)
    L.append(Line(["\tget_tab(", lv, ")[", av, "] = new_node(", av, ", ", bv, ");"], "stmt", 1, 0, stmt="assign"))
    L.append(Line(["\tget_tab(", lv, ")[", av, "].next = new_node(", av, ", ", bv, ");"], "stmt", 1, 0, stmt="assign"))
    L.append(Line(["\tft_lstlast(", lv, ")->tab[", av, "][", bv, "]->size += pick(", av, " && ", bv, ", ", bv, ");"], "stmt", 1, 0, stmt="opassign"))
    L.append(Line(["}"], "func_close", 0, 0))
    out.append(Prog(name, L, dict(nfuncs=1, maximal="calls followed by chains of member accesses as assignment targets")))
    for prog in out:
        normalise_indent(prog)
    return out


def normalise_indent(prog):
    """hand-written lines: make the first part the pure indentation (the edit operators replace / strip parts[0])"""
    for l in prog.lines:
        if l.parts and isinstance(l.parts[0], str) and l.kind in ("stmt", "decl", "ctrl", "cont", "lbrace", "rbrace", "member", "enumerator"):
            first = l.parts[0]
            n = len(first) - len(first.lstrip("\t"))
            if n and n < len(first):
                l.parts = [first[:n], first[n:]] + l.parts[1:]
            elif n == 0:
                l.parts = [""] + l.parts
    return prog
