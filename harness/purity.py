"""C06 (second part): determinism of the rule order and the direct A;B versus B check.

order_z3      -- z3 query over the priorities / names actually loaded from the working tree: do two import
                 orders exist whose stable sort results differ?  (unsat expected; sat = a duplicated priority
                 or duplicated check name, reported with the pair)
order_reimport-- the package is re-imported in fresh interpreters under permuted os.listdir results; the
                 resulting primaries / dependency orders must be identical
tworun        -- solver-chosen (history A, probe B) pairs: B's diagnostics after A in the same process and
                 registry must equal B's diagnostics alone (native runs, fresh interpreters)"""
import os
import sys
import json
import subprocess
import z3
from symx import core
from symx.core import Explorer, choose
from symx.run import Collector, PY, VERIF
from harness import families as F, pipeline as P, edits as E

HNAME = "harness.purity"

HISTORIES = {
    "clean": ("a.c", "int\tmain(void)\n{\n\treturn (0);\n}\n"),
    "errors": ("b.c", "int main()\n{\n  return 0;\n}\n"),
    "fatal_unrecognised": ("c.c", "int\tmain(void)\n{\n\treturn (0);\n}\n] ] ]\n"),
    "fatal_bad_if": ("d.c", "#if ((((1\nint\tmain(void)\n{\n\treturn (0);\n}\n#endif\n"),
    "deep_if": ("e.c", "#if " + "(" * 40 + "1" + ")" * 40 + "\n# define A 1\n#endif\n"),
    "header_file": ("f.h", "#ifndef F_H\n# define F_H\n\nint\tfoo(void);\n\n#endif\n"),
    "crashing": ("g.c", "typedef;\n"),
    # files that end in an OPEN state (raw = no 42 header is put in front)
    "header_only": ("i.c", None),
    "header_only_h": ("i.h", None),
    "unclosed_function": ("j.c", "int\tmain(void)\n{\n\tif (1)\n\t{\n\t\treturn (0);\n"),
    "unclosed_if": ("k.c", "#ifdef A\n# define B 1\n"),
    "unclosed_struct": ("l.h", "#ifndef L_H\n# define L_H\n\ntypedef struct s_a\n{\n\tint\ta;\n"),
    "unclosed_comment": ("m.c", "int\tmain(void)\n{\n\treturn (0);\n}\n/* open"),
    "defines_guard_names": ("n.c", "#define Q_H 1\n#define NO_H 1\n#define A 1\n"),
    "comment_in_args": ("o.h", "#ifndef O_H\n# define O_H\n\nint\tfoo(int /* n */ a);\n\n#endif\n"),
    "if_with_function_like_macro": ("p.c", "#if VERSION_AT_LEAST(2, 7)\n# define B 1\n#elif OTHER(1)\n# define B 2\n#endif\n"),
    "lexer_notices": ("q.c", "int\tmain(void)\n{\n\tchar\tc;\n\n\tc = '\\q';\n\treturn (c);\n}\n"),
    # a copied header that kept the guard of the original: the same guard symbol under two file names
    "guard_list_h_in_list_h": ("list.h", "#ifndef LIST_H\n# define LIST_H\n\nint\tfoo(void);\n\n#endif\n"),
    "guard_list_h_in_queue_h": ("queue.h", "#ifndef LIST_H\n# define LIST_H\n\nint\tfoo(void);\n\n#endif\n"),
    "globals_protos": ("h.c", "static int\tg_a = 1;\nstatic char\t*g_b;\n\nint\t\tfoo(int a);\nint\t\tbar(void);\n"),
}
PROBES = {
    "clean": ("p.c", "int\tmain(void)\n{\n\treturn (0);\n}\n"),
    "protos": ("q.h", "#ifndef Q_H\n# define Q_H\n\nint\t\tfoo(int a);\nchar\t*bar(void);\n\n#endif\n"),
    "decls": ("r.c", "int\tfn(int a)\n{\n\tint\t\tx;\n\tchar\t*y;\n\n\tx = a;\n\ty = 0;\n\treturn (x);\n}\n"),
    "deep_if": ("s.c", "#if " + "(" * 60 + "1" + ")" * 60 + "\n# define A 1\n#endif\n"),
    "errors": ("t.c", "int main()\n{\n\tint a = 1;\n\treturn a;\n}\n"),
    # probes that are sensitive to one piece of leaked state each
    "bad_header": ("v.c", "@NOHEADER@/* ************************************************************************** */\n/*                                                                            */\n"
                          "/*   v.c                                                :+:      :+:    :+:   */\n/* ************************************************************************** */\n\n"
                          "int\tmain(void)\n{\n\treturn (0);\n}\n"),
    "no_header": ("w.c", "@NOHEADER@int\tmain(void)\n{\n\treturn (0);\n}\n"),
    "guard_without_define": ("no.h", "#ifndef NO_H\n\nint\tfoo(void);\n\n#endif\n"),
    "ifdef_of_other_files_macro": ("x.c", "#ifdef A\n# define B 2\n#else\n# define B 3\n#endif\n\nint\tmain(void)\n{\n\treturn (B);\n}\n"),
    "comment_between_type_and_name": ("y.c", "int\tfn(int /* n */ a, char * /* s */ b)\n{\n\treturn (a + b[0]);\n}\n"),
    "nested_parentheses_200": ("z.c", "int\tfn(int a)\n{\n\treturn (" + "(" * 200 + "a" + ")" * 200 + ");\n}\n"),
    "guard_list_h_in_queue_h": ("queue.h", "#ifndef LIST_H\n# define LIST_H\n\nint\tbar(void);\n\n#endif\n"),
    "guard_list_h_in_list_h": ("list.h", "#ifndef LIST_H\n# define LIST_H\n\nint\tbar(void);\n\n#endif\n"),
    # statements whose recognition runs through helper tables (member names after a call, keywords used as members, casts,
    # sizeof, ternaries, compound assignments with separators on the right-hand side): analysed twice and after every history
    "call_arrow_member_assign": ("aa.c", "void\tfn(t_list *lst, int a, int b)\n{\n\tft_lstlast(lst)->next = new_node(a, b);\n\tft_lstlast(lst)->content = pick(a, b);\n"
                                        "\tft_lstlast(lst)->prev = make(a && b, a || b);\n}\n"),
    "statement_zoo": ("ab.c", "int\tfn(t_list *lst, int a, char **tab)\n{\n\tint\t\ti;\n\tt_pt\tp;\n\n\ti = (int)sizeof(t_pt) * a;\n\tp = (t_pt){a, i};\n"
                              "\ti += (a > 2) ? tab[0][1] : -a;\n\tlst->next->content = (void *)tab[i];\n\t(*tab)[i]++;\n\twhile (tab[i] && i < a)\n\t\ti++;\n"
                              "\tif (!lst || p.x >= a)\n\t\treturn (fn(lst, a - 1, tab));\n\telse if (a)\n\t\tget(lst)->prev = 0;\n\treturn (i << 2 | a);\n}\n"),
    "six_funcs": ("u.c", "\n".join("int\tf%d(void)\n{\n\treturn (%d);\n}\n" % (i, i) for i in range(6))),
}


def chunks(tier):
    return [dict(part="order_z3"), dict(part="order_reimport")] + [dict(part="tworun", a=a) for a in sorted(HISTORIES)]


def _with_header(name, body):
    hdr = "".join(l.default_text() + "\n" for l in F.header_lines(name))
    if body is None:                       # the 42 header and nothing else
        return hdr
    if body.startswith("@NOHEADER@"):      # the text as given (its own, possibly malformed, header or none)
        return body[len("@NOHEADER@"):]
    return hdr + "\n" + body


def run_seq(seq):
    """native: process the given (name, text) files one after the other with ONE registry; list of outcome keys"""
    code = (
        ("import sys, json; sys.path.insert(0, %r); sys.path.insert(0, %%r)\n" % __import__("symx").REPO) +
        "from harness import pipeline as P\n"
        "seq = json.loads(sys.stdin.read())\n"
        "out = []\n"
        "for name, text in seq:\n"
        "    o = P.run_text(name, text)\n"
        "    out.append([o.kind, o.detail, [list(e) for e in o.errors]])\n"
        "print('@@' + json.dumps(out))\n") % VERIF
    r = subprocess.run([PY, "-c", code], input=json.dumps(seq), capture_output=True, text=True, timeout=120,
                       env=dict(os.environ, PYTHONDONTWRITEBYTECODE="1"))
    for line in r.stdout.splitlines():
        if line.startswith("@@"):
            return json.loads(line[2:])
    return [["crash", r.stderr[-300:], []]] * len(seq)


def reimport_orders(perm):
    code = (
        ("import sys, os, json; sys.path.insert(0, %r)\n" % __import__("symx").REPO) +
        "real = os.listdir\n"
        "perm = %r\n"
        "def fake(p='.'):\n"
        "    r = real(p)\n"
        "    if str(p).endswith('norminette/rules'):\n"
        "        r = sorted(r)\n"
        "        if perm == 'reversed': r = r[::-1]\n"
        "        elif perm == 'rotated': r = r[len(r)//2:] + r[:len(r)//2]\n"
        "        elif perm == 'interleaved': r = r[::2] + r[1::2]\n"
        "    return r\n"
        "os.listdir = fake\n"
        "from norminette.registry import Registry, rules\n"
        "reg = Registry()\n"
        "print('@@' + json.dumps({'primaries': [r.__name__ for r in rules.primaries],\n"
        "   'deps': sorted((k, [r.__name__ for r in v]) for k, v in reg.dependencies.items() if v)}))\n") % perm
    r = subprocess.run([PY, "-c", code], capture_output=True, text=True, timeout=120,
                       env=dict(os.environ, PYTHONDONTWRITEBYTECODE="1"))
    for line in r.stdout.splitlines():
        if line.startswith("@@"):
            return json.loads(line[2:])
    return {"crash": r.stderr[-300:]}


def run_chunk(chunk, ctx):
    part = chunk["part"]
    col = Collector(HNAME, seed=ctx["seed"], sample_rate=1.0)
    if part == "order_z3":
        import norminette.registry as NR
        prim = [(r.__name__, r.priority) for r in NR.rules.primaries]
        s = z3.Solver()
        n = len(prim)
        pi = [z3.Int(f"pi{i}") for i in range(n)]
        pj = [z3.Int(f"pj{i}") for i in range(n)]
        for perm in (pi, pj):
            s.add(z3.Distinct(*perm), *[z3.And(x >= 0, x < n) for x in perm])

        def rank(perm, i):
            return z3.Sum([z3.If(z3.Or(prim[j][1] > prim[i][1], z3.And(prim[j][1] == prim[i][1], perm[j] < perm[i])), 1, 0)
                           for j in range(n) if j != i])
        s.add(z3.Or([rank(pi, i) != rank(pj, i) for i in range(n)]))
        r = s.check()
        queries, sat, unsat = 1, int(r == z3.sat), int(r == z3.unsat)
        col.notes["primaries"] = prim
        if r == z3.sat:
            dup = sorted({a[0] + "=" + b[0] for a in prim for b in prim if a[0] < b[0] and a[1] == b[1]})
            col.violation("C06:order:duplicate-priority:" + ",".join(dup)[:120],
                          f"two primary rules share a priority, so their order depends on the directory listing: {dup}", dict(part="order_z3", dup=dup))
        # dependency lists: sorted by __name__; equal names would make the order depend on registration order
        reg = P.registry()
        for k, v in reg.dependencies.items():
            names = [c.__name__ for c in v]
            queries += 1
            if len(set(names)) != len(names):
                sat += 1
                col.violation(f"C06:order:duplicate-check-name:{k}", f"dependency list of {k} has two checks of the same name", dict(part="order_z3", dup=names))
            else:
                unsat += 1
        res = col.finish()
        res["stats"] = dict(paths=1, queries=queries, sat=sat, unsat=unsat, unknown=0, exhaustive=True)
        if not res["confirmed"] and not col.cands:
            res["validated"] = 1
        return res
    if part == "order_reimport":
        base = reimport_orders("sorted")
        n = 0
        for perm in ("reversed", "rotated", "interleaved"):
            o = reimport_orders(perm)
            n += 1
            if o != base:
                what = "primaries" if o.get("primaries") != base.get("primaries") else "dependencies"
                col.violation(f"C06:order:listing-dependent:{what}", f"rule order differs when the rules directory is listed in {perm} order",
                              dict(part="order_reimport", perm=perm))
        res = col.finish(limit=120)
        res["stats"] = dict(paths=n + 1, queries=0, exhaustive=True)
        res["validated"] = res.get("validated", 0) + (n if not col.cands else 0)
        return res
    # two-run
    ex = Explorer()
    core.set_run(ex)
    hk, pk = sorted(HISTORIES), sorted(PROBES)
    cur = {}

    def body():
        cur.clear()
        a = chunk["a"]
        b = pk[choose("B", len(pk))]
        v = tworun(a, b)
        for fp, what in v:
            col.violation(fp, what, dict(part="tworun", a=a, b=b))
            cur["viol"] = True
        return dict(a=a, b=b)

    def on_path(res, status):
        if status == "gap":
            col.gap(str(res)[:100])
        elif status == "ok" and not cur.get("viol") and col.want_witness():
            col.add_witness(dict(part="tworun", a=res["a"], b=res["b"]), dict(ok=True))
    col.sample_rate = 0.2
    ex.explore(body, on_path=on_path, max_time=ctx.get("chunk_time", 140))
    res = col.finish(limit=120)
    res["stats"] = ex.stats()
    return res


def tworun(a, b):
    an, at = HISTORIES[a]
    bn, bt = PROBES[b]
    A = [an, _with_header(an, at)]
    B = [bn, _with_header(bn, bt)]
    alone = run_seq([B])[0]
    after = run_seq([A, B])[1]
    twice = run_seq([B, B])[1]
    v = []
    if after != alone:
        v.append((f"C06:tworun:after-{a}:{b}", f"diagnostics of probe '{b}' differ when it is analysed after history file '{a}' in the same process"))
    if twice != alone:
        v.append((f"C06:tworun:twice:{b}", f"diagnostics of probe '{b}' differ when it is analysed twice"))
    return v


def replay(case):
    viol = []
    if case["part"] == "tworun":
        viol = [list(x) for x in tworun(case["a"], case["b"])]
    elif case["part"] == "order_reimport":
        if reimport_orders(case["perm"]) != reimport_orders("sorted"):
            what = "primaries" if reimport_orders(case["perm"]).get("primaries") != reimport_orders("sorted").get("primaries") else "dependencies"
            viol.append([f"C06:order:listing-dependent:{what}", "order differs"])
    else:
        import norminette.registry as NR
        prim = [(r.__name__, r.priority) for r in NR.rules.primaries]
        dup = sorted({a[0] + "=" + b[0] for a in prim for b in prim if a[0] < b[0] and a[1] == b[1]})
        if dup:
            viol.append(["C06:order:duplicate-priority:" + ",".join(dup)[:120], "duplicate priority"])
    return dict(digest=dict(ok=not viol), violations=viol)
