"""C15: which files the real norminette.__main__.main() selects, for every small directory tree with symbolic
entry names and kinds, and every argument list over it.

Executed for real (instrumented): argparse, the selection loop of main() (work list extended while iterated,
exists / is_file / is_dir / suffix tests, missing-path abort, --use-gitignore filter), File.__init__, the
analysis loop, the formatter.  Stubbed by contract (the environment): pathlib.Path, glob.glob and
`git check-ignore` answer from a symbolic file-system model (a tree of <= K entries: name = symbolic characters,
kind = regular file | directory | other, ignored flag); Lexer / Registry.run are the C04 stubs (every file clean).
The stub contracts are themselves cross-checked against the real OS: every sampled witness is rebuilt as a real
directory tree and pushed through the real command line (real glob / pathlib / git), and the selected files must
be the ones the model predicted."""
import io
import os
import sys
import json
import time
import shutil
import tempfile
import contextlib
import subprocess
import collections
import z3
from symx import core
from symx.core import Var, Explorer, SymStr, declare, choose, choose_var, k_in, k_not, key_expr, _b
from symx.run import Collector

HNAME = "harness.discover"
ALPHA = ".chCa "         # '.', the two accepted suffix letters, an upper-case look-alike, 'a' = any other character, a blank
KINDS = ("file", "dir", "other")
MISSING = "zz"           # not a name of the model (alphabet) and never created


# ---------------------------------------------------------------------------------------------- tree shapes / chunks
def shapes(k):
    """all parent vectors for k entries: parent[i] in {-1 (the cwd)} u {j < i}"""
    out = [[]]
    for i in range(k):
        out = [p + [j] for p in out for j in range(-1, i)]
    return out


LENGTHS = {1: [(3,), (2,), (1,), (4,), (5,)],
           2: [(3, 3), (2, 3), (3, 1), (4, 3), (3, 5), (1, 4)],
           3: [(3, 3, 3), (1, 3, 4), (2, 4, 3), (3, 2, 5), (4, 3, 1), (3, 5, 2)],
           4: [(3, 3, 3, 3), (2, 3, 4, 3), (3, 1, 3, 4), (4, 3, 3, 2)]}
MODES = ("noarg", "one", "two", "missing", "git")


def chunks(tier):
    out = []
    ks = (1, 2, 3) if tier == "quick" else (1, 2, 3, 4)
    for k in ks:
        for sh in shapes(k):
            for ln in LENGTHS[k]:
                for mode in MODES:
                    if tier == "quick" and k == 3 and ln not in LENGTHS[3][:3]:
                        continue
                    out.append(dict(parents=sh, lens=list(ln), mode=mode))
    return out


# ---------------------------------------------------------------------------------------------- helpers on poly strings
def s_eq(a, b):
    """a == b for str | SymStr (forks when undetermined)"""
    if type(a) is str and type(b) is str:
        return a == b
    if len(a) != len(b):
        return False
    return (a == b) if isinstance(a, SymStr) else (b == a)


def ends_source(name):
    """the property's 'ending in .c or .h'"""
    if len(name) < 2:
        return False
    t = name[len(name) - 2:]
    return s_eq(t, ".c") or s_eq(t, ".h")


def hidden(name):
    return s_eq(name[0:1], ".")


def parse_pat(p):
    toks, i = [], 0
    while i < len(p):
        c = p[i]
        if c == "*":
            toks.append(("star",))
        elif c == "?":
            toks.append(("any",))
        elif c == "[" and "]" in p[i + 2:]:
            j = p.index("]", i + 2)
            body = p[i + 1:j]
            neg = body[:1] == "!"
            if neg:
                body = body[1:]
            chars, q = "", 0
            while q < len(body):
                if q + 2 < len(body) and body[q + 1] == "-":
                    chars += "".join(chr(x) for x in range(ord(body[q]), ord(body[q + 2]) + 1))
                    q += 3
                else:
                    chars += body[q]
                    q += 1
            toks.append(("set", chars, neg))
            i = j
        else:
            toks.append(("lit", c))
        i += 1
    return toks


def fnm(name, toks, i=0, j=0):
    """fnmatch.fnmatchcase(name, pattern) on a str | SymStr name (documented contract of fnmatch: * ? [seq] [!seq])"""
    if j == len(toks):
        return i == len(name)
    t = toks[j]
    if t[0] == "star":
        for k in range(i, len(name) + 1):
            if fnm(name, toks, k, j + 1):
                return True
        return False
    if i >= len(name):
        return False
    c = name[i:i + 1]
    if t[0] == "any":
        ok = True
    elif t[0] == "lit":
        ok = s_eq(c, t[1])
    else:
        ok = any(s_eq(c, x) for x in t[1])
        if t[2]:
            ok = not ok
    return ok and fnm(name, toks, i + 1, j + 1)


class Model:
    """the file-system model: entries below the current directory"""

    def __init__(self, parents, names, kinds, ignored):
        self.n = len(parents)
        self.parents, self.names, self.kinds, self.ignored = parents, names, kinds, ignored
        self.paths = []
        for i in range(self.n):
            p = parents[i]
            self.paths.append(names[i] if p < 0 else self.paths[p] + "/" + names[i])

    def children(self, d):
        return [i for i in range(self.n) if self.parents[i] == d]

    # -- contract of glob.glob(pattern, recursive=...) relative to directory d (-1 = cwd)
    def glob(self, d, comps, recursive):
        if not comps:
            return [d]
        comp, rest = comps[0], comps[1:]
        out = []
        if comp == "**" and recursive:
            bases = self.subdirs(d)
            if not rest:
                res = []
                for b in bases:
                    res += [c for c in self.children(b) if not hidden(self.names[c])]
                return ([d] if d >= 0 else []) + res
            for b in bases:
                out += self.glob(b, rest, recursive)
            return out
        toks = parse_pat(comp)
        for c in self.children(d):
            nm = self.names[c]
            if hidden(nm) and not comp.startswith("."):
                continue
            if not fnm(nm, toks):
                continue
            if not rest:
                out.append(c)
            elif self.kinds[c] == "dir":
                out += self.glob(c, rest, recursive)
        return out

    def subdirs(self, d):
        """d and every directory below it reachable through non-hidden directories"""
        out = [d]
        for c in self.children(d):
            if self.kinds[c] == "dir" and not hidden(self.names[c]):
                out += self.subdirs(c)
        return out

    # -- the property's reading (independent of the glob model above)
    def expected_under(self, d):
        out = []
        for c in self.children(d):
            nm = self.names[c]
            if hidden(nm):
                continue
            if self.kinds[c] == "file" and ends_source(nm):
                out.append(c)
            if self.kinds[c] == "dir":
                out += self.expected_under(c)
        return out


def expected(model, args, gitignore):
    """-> (selected entries in any order, rejected mentions, aborts, unspecified)"""
    sel, rejects = [], 0
    for a in args:
        if a == "missing":
            return sel, rejects, True, False
        k = model.kinds[a]
        nm = model.names[a]
        if k == "file":
            if len(nm) == 2 and hidden(nm) and ends_source(nm):
                return sel, rejects, False, True       # a file named exactly ".c" / ".h": not specified
            if ends_source(nm):
                sel.append(a)
            else:
                rejects += 1
        elif k == "dir":
            sel += model.expected_under(a)
    if not args:
        sel += model.expected_under(-1)
    if gitignore:
        sel = [s for s in sel if not model.ignored[s]]
    return sel, rejects, False, False


def describe(model, e, args):
    """coarse class of an entry for fingerprints"""
    k = model.kinds[e]
    nm = model.names[e]
    bits = [k]
    if hidden(nm):
        bits.append("hidden")
    bits.append("source-suffix" if ends_source(nm) else "other-suffix")
    p = model.parents[e]
    anc = []
    while p >= 0 and p not in args:
        anc.append(p)
        p = model.parents[p]
    if any(ends_source(model.names[a]) for a in anc):
        bits.append("below-dir-named-like-source")
    elif anc:
        bits.append("nested")
    if model.ignored[e]:
        bits.append("ignored")
    return "+".join(bits)


def judge(model, args, mode, checked, names_ok, msgs, code, exc):
    """checked: entry indices handed to the analysis (one per analysed file; -2 = a path outside the tree)"""
    v = []
    if exc:
        v.append((f"C15:{mode}:exception:{exc}", f"main() dies with {exc}"))
        return v
    sel, rejects, aborts, unspec = expected(model, args, mode == "git")
    if unspec:
        return v
    if aborts:
        if code in (0, None):
            v.append((f"C15:{mode}:missing-path-exit-zero", "a nonexistent path does not give a non-zero exit status"))
        return v
    got, want = collections.Counter(checked), collections.Counter(sel)
    for e in sorted(set(got) | set(want)):
        if got[e] == want[e]:
            continue
        if e == -2:
            v.append((f"C15:{mode}:checked-unknown-path", "a path that is not in the tree was analysed"))
            continue
        d = describe(model, e, args)
        if got[e] > want[e]:
            kind = "extra" if want[e] == 0 else "duplicate"
        else:
            kind = "missing"
        v.append((f"C15:{mode}:{kind}:{d}", f"entry analysed {got[e]} time(s), expected {want[e]} ({d})"))
    if not names_ok:
        v.append((f"C15:{mode}:basename", "a file is not reported under its base name"))
    if msgs < rejects:
        v.append((f"C15:{mode}:reject-message", f"{rejects} named file(s) with another suffix but {msgs} message(s)"))
    return v


# ---------------------------------------------------------------------------------------------- symbolic run
def run_chunk(chunk, ctx):
    import norminette.__main__ as M
    import norminette.errors as NE
    import argparse
    parents, lens, mode = chunk["parents"], chunk["lens"], chunk["mode"]
    K = len(parents)
    ex = Explorer()
    core.set_run(ex)
    col = Collector(HNAME, seed=ctx["seed"], sample_rate=ctx.get("sample_rate", 0.1), max_witness=60)
    chars = [[declare(Var(f"c{i}_{j}", [ord(x) for x in ALPHA])) for j in range(lens[i])] for i in range(K)]
    kv = [declare(Var(f"k{i}", (0, 1, 2))) for i in range(K)]
    ig = [declare(Var(f"g{i}", (0, 1))) for i in range(K)]
    for i in range(K):
        if parents[i] >= 0:
            ex.solver.add(kv[parents[i]].z == 1)         # a parent is a directory
        if mode != "git":
            ex.solver.add(ig[i].z == 0)
    a1 = declare(Var("a1", range(K)))
    a2 = declare(Var("a2", range(K)))
    state, cur = {}, {}

    def build():
        names = [SymStr(list(chars[i])) for i in range(K)]
        kinds = [KINDS[choose_var(kv[i])] for i in range(K)]
        for i in range(K):
            # "." and ".." are not entry names; siblings have distinct names
            if lens[i] == 1:
                ex.assume(k_not(names[i].eq_key(".")))
            if lens[i] == 2:
                ex.assume(k_not(names[i].eq_key("..")))
            for j in range(i):
                if parents[i] == parents[j] and lens[i] == lens[j]:
                    ex.assume(k_not(names[i].eq_key(names[j])))
        ignored = [bool(kinds[i] == "file" and mode == "git" and choose_var(ig[i])) for i in range(K)]
        return Model(parents, names, kinds, ignored)

    class StubLexer:
        def __init__(self, file):
            self.file = file

        def __iter__(self):
            return iter(())

    class StubRegistry:
        def run(self, context):
            state["checked"].append(context.file)

    def node_of(item):
        m = state["model"]
        i = state["byid"].get(id(item))
        if i is not None:
            return i
        if isinstance(item, FakePath):
            return item.node
        if isinstance(item, str) and item.startswith("\x01N"):
            return int(item[2:item.index("\x01", 2)])
        for i in range(m.n):
            if s_eq(item, m.paths[i]):
                return i
        return None

    class FakePath:
        """pathlib.Path by contract, answered from the model"""

        def __init__(self, item):
            self.item = item
            self.node = node_of(item)

        def exists(self):
            return self.node is not None

        def is_file(self):
            return self.node is not None and state["model"].kinds[self.node] == "file"

        def is_dir(self):
            return self.node is not None and state["model"].kinds[self.node] == "dir"

        @property
        def name(self):
            return state["model"].names[self.node] if self.node is not None else os.path.basename(self.item)

        @property
        def suffix(self):
            name = self.name
            i = name.rfind(".")
            if 0 < i < len(name) - 1:
                return name[i:]
            return ""

        @property
        def stem(self):
            name = self.name
            i = name.rfind(".")
            if 0 < i < len(name) - 1:
                return name[:i]
            return name

        def __str__(self):
            return f"\x01N{self.node}\x01" if self.node is not None else str(self.item)

        # no symbolic links in the model: resolving / making absolute names the same entry
        def resolve(self, strict=False):
            return self

        def absolute(self):
            return self

        def __eq__(self, o):
            if not isinstance(o, FakePath):
                return NotImplemented
            if self.node is not None or o.node is not None:
                return self.node == o.node
            return str(self.item) == str(o.item)

        def __hash__(self):
            return hash(self.node if self.node is not None else str(self.item))

        __fspath__ = __str__

        def __getattr__(self, a):
            raise core.EngineGap(f"pathlib.Path.{a} is not part of the file-system model")

    class FakePathlib:
        Path = FakePath
        PurePath = FakePath

    class FakeGlob:
        @staticmethod
        def glob(pattern, *, recursive=False, **kw):
            if kw:
                raise core.EngineGap("glob keyword " + ",".join(kw))
            m = state["model"]
            base, rest = -1, pattern
            if isinstance(pattern, str) and pattern.startswith("\x01N"):
                j = pattern.index("\x01", 2)
                base, rest = int(pattern[2:j]), pattern[j + 1:]
                if not rest.startswith("/"):
                    raise core.EngineGap("glob pattern shape")
                rest = rest[1:]
            elif not isinstance(pattern, str):
                for i in range(m.n):
                    pl = len(m.paths[i])
                    if len(pattern) > pl + 1 and s_eq(pattern[:pl], m.paths[i]) and s_eq(pattern[pl:pl + 1], "/"):
                        base, rest = i, pattern[pl + 1:]
                        break
                rest = rest.unique() if isinstance(rest, SymStr) else rest
            if base >= 0 and m.kinds[base] != "dir":
                return []
            hits = m.glob(base, rest.split("/"), recursive)
            out = []
            for h in hits:
                if h < 0:
                    continue
                if base < 0:
                    p = m.paths[h]
                else:
                    p = m.paths[base] + "/" + rel(m, base, h)
                p = p + ""
                if isinstance(p, str):
                    p = SymStr(list(p))
                state["byid"][id(p)] = h
                state["keep"].append(p)
                out.append(p)
            return out

        iglob = glob

    def rel(m, base, h):
        parts = []
        while h != base:
            parts.append(m.names[h])
            h = m.parents[h]
        out = parts[-1]
        for x in reversed(parts[:-1]):
            out = out + "/" + x
        return out

    class FakeProc:
        def __init__(self, rc):
            self.returncode = rc
            self.stdout = self.stderr = b""

    class FakeSubprocess:
        PIPE = subprocess.PIPE
        DEVNULL = subprocess.DEVNULL

        @staticmethod
        def run(command, **kw):
            # contract of `git check-ignore -q <path>`: 0 = ignored, 1 = not ignored
            # contract of `git check-ignore --stdin`: paths are read from standard input one per line; the ignored ones are
            # printed one per line exactly as given; 0 = at least one is ignored, 1 = none
            m = state["model"]
            if "-z" in command or "-v" in command or "-n" in command:
                raise core.EngineGap("git check-ignore option outside the modelled contract")
            if "--stdin" in command:
                data = kw.get("input")
                if data is None:
                    raise core.EngineGap("git check-ignore --stdin without input")
                if isinstance(data, bytes):
                    data = data.decode()
                hits = []
                for line in (data.split("\n") if len(data) else []):
                    if len(line) == 0:
                        continue
                    i = node_of(line)
                    if i is not None and m.ignored[i]:
                        hits.append(line)
                out = ""
                for h in hits:
                    out = out + h + "\n"
                pr = FakeProc(0 if hits else 1)
                textmode = kw.get("universal_newlines") or kw.get("text") or kw.get("encoding")
                pr.stdout = out if textmode else (out.encode() if isinstance(out, str) else out)
                pr.stderr = "" if textmode else b""
                return pr
            paths = [c for c in command[2:] if not (isinstance(c, str) and c.startswith("-"))]
            if len(paths) != 1:
                raise core.EngineGap("git check-ignore with several paths")
            i = node_of(paths[0])
            if i is None:
                return FakeProc(128)
            return FakeProc(0 if m.ignored[i] else 1)

        @staticmethod
        def check_output(command, **kw):
            return FakeSubprocess.run(command, **kw).stdout

    FakeSubprocess.CompletedProcess = FakeProc

    real_parse = argparse.ArgumentParser.parse_args
    fmt_cls = NE.HumanizedErrorsFormatter

    class CapturingFormatter(fmt_cls):
        """the real humanized formatter; its (symbolic) text is kept for the judge, print() gets a plain string"""
        name = "humanized"

        def __str__(self):
            state["report"] = fmt_cls.__str__(self)
            return ""

    CapturingFormatter.name = "humanized"      # __init_subclass__ derives the name from the class name
    saved = (M.Lexer, M.Registry, M.pathlib, M.glob, M.subprocess, M.formatters)
    M.Lexer, M.Registry, M.pathlib, M.glob, M.subprocess = StubLexer, StubRegistry, FakePathlib, FakeGlob, FakeSubprocess
    M.formatters = (CapturingFormatter,)

    def body():
        cur.clear()
        model = build()
        state.update(model=model, byid={}, keep=[], checked=[], report="")
        if mode == "noarg":
            args = []
        elif mode in ("one", "git"):
            args = [choose_var(a1)]
        elif mode == "two":
            args = [choose_var(a1), choose_var(a2)]
        else:
            args = [choose_var(a1), "missing"] if choose("mpos", 2) else ["missing", choose_var(a1)]
        items = []
        for a in args:
            if a == "missing":
                items.append(MISSING)
            else:
                p = model.paths[a] + ""
                if isinstance(p, str):
                    p = SymStr(list(p))
                state["byid"][id(p)] = a
                state["keep"].append(p)
                items.append(p)

        def parse(self, *a, **k):
            ns = real_parse(self, *a, **k)
            ns.file = list(items)
            return ns

        out = io.StringIO()
        code = exc = None
        old_argv = sys.argv
        sys.argv = ["norminette", "--no-colors"] + (["--use-gitignore"] if mode == "git" else [])
        argparse.ArgumentParser.parse_args = parse
        try:
            with contextlib.redirect_stdout(out), contextlib.redirect_stderr(io.StringIO()):
                try:
                    M.main()
                except SystemExit as e:
                    code = e.code
                except Exception as e:
                    exc = type(e).__name__
        finally:
            sys.argv = old_argv
            argparse.ArgumentParser.parse_args = real_parse
        checked = []
        names_ok = True
        lines = state["report"].split("\n") if state["report"] else []
        for n_, f in enumerate(state["checked"]):
            i = node_of(f.path)
            checked.append(-2 if i is None else i)
            if i is not None:
                want = model.names[i]
                for got in (f.basename, lines[n_][:len(lines[n_]) - 5] if n_ < len(lines) and len(lines[n_]) >= 5 else None):
                    if got is None or len(got) != len(want):
                        names_ok = False
                    elif not isinstance(got, str) or not isinstance(want, str):
                        k = (got if isinstance(got, SymStr) else want).eq_key(want if isinstance(got, SymStr) else got)
                        if k is False or (k is not True and ex.feasible(z3.Not(key_expr(k)))):
                            names_ok = False
                    elif got != want:
                        names_ok = False
        msgs = sum(1 for l in out.getvalue().splitlines() if "not valid" in l)
        viol = judge(model, args, mode, checked, names_ok, msgs, code, exc)
        mdl = ex.model()
        case = dict(entries=[dict(name=model.names[i].concretize(mdl), parent=parents[i], kind=model.kinds[i],
                                  ignored=model.ignored[i]) for i in range(K)], args=args, mode=mode)
        for fp, what in viol:
            col.violation(fp, what, case)
            cur["viol"] = True
        cur["case"] = case
        sel, rejects, aborts, unspec = expected(model, args, mode == "git")
        if unspec:
            col.count("named_dot_c_unspecified")
        cur["digest"] = dict(ok=True, selected=sorted(case_path(case, i) for i in checked if i >= 0),
                             aborted=bool(aborts)) if not unspec else None
        return True

    def on_path(res, status):
        if status == "gap":
            col.gap(str(res)[:100])
        elif status == "timeout":
            col.count("slow_paths_not_analysed")
        elif status == "ok" and not cur.get("viol") and cur.get("digest") and col.want_witness():
            col.add_witness(cur["case"], cur["digest"])

    try:
        ex.explore(body, on_path=on_path, max_time=max(1.0, min(ctx.get("chunk_time", 60), ctx["deadline"] - time.time())),
                   path_alarm=20.0)
    finally:
        M.Lexer, M.Registry, M.pathlib, M.glob, M.subprocess, M.formatters = saved
    res = col.finish(limit=90)
    res["stats"] = ex.stats()
    return res


def case_path(case, i):
    parts = []
    while i >= 0:
        parts.append(case["entries"][i]["name"])
        i = case["entries"][i]["parent"]
    return "/".join(reversed(parts))


# ---------------------------------------------------------------------------------------------- native replay (real OS)
CLEAN = "\nint\tmain(void)\n{\n\treturn (0);\n}\n"


def replay(case):
    from harness.families import HEADER_TMPL
    ents, args, mode = case["entries"], case["args"], case["mode"]
    model = Model([e["parent"] for e in ents], [e["name"] for e in ents], [e["kind"] for e in ents],
                  [bool(e.get("ignored")) for e in ents])
    tmp = os.path.realpath(tempfile.mkdtemp(prefix="nverif-"))
    try:
        for i, e in enumerate(ents):
            p = os.path.join(tmp, model.paths[i])
            if e["kind"] == "dir":
                os.mkdir(p)
            elif e["kind"] == "file":
                open(p, "w").write(HEADER_TMPL.format(file=e["name"]) + "\n" + CLEAN)
            else:
                os.mkfifo(p)
        env = dict(os.environ, PYTHONPATH=__import__("symx").REPO, PYTHONDONTWRITEBYTECODE="1", GIT_CONFIG_GLOBAL="/dev/null",
                   GIT_CONFIG_SYSTEM="/dev/null")
        opts = ["--no-colors"]
        if mode == "git":
            subprocess.run(["git", "init", "-q", tmp], capture_output=True, env=env, timeout=30)
            with open(os.path.join(tmp, ".gitignore"), "w") as f:
                for i, e in enumerate(ents):
                    if e.get("ignored"):
                        f.write("/" + model.paths[i] + "\n")
            opts.append("--use-gitignore")
        argv = [MISSING if a == "missing" else model.paths[a] for a in args]
        viol = []
        try:
            r = subprocess.run(["/venv/bin/python", "-m", "norminette", "-f", "json"] + opts + argv, cwd=tmp,
                               capture_output=True, text=True, timeout=40, env=env)
            h = subprocess.run(["/venv/bin/python", "-m", "norminette"] + opts + argv, cwd=tmp,
                               capture_output=True, text=True, timeout=40, env=env)
        except subprocess.TimeoutExpired:
            return dict(digest=dict(ok=False), violations=[[f"C15:{mode}:hang", "the run does not terminate (blocked on a non-regular file?)"]])
        exc = None
        if "Traceback (most recent call last)" in r.stderr:
            exc = r.stderr.strip().splitlines()[-1].split(":")[0]
        checked, names_ok = [], True
        for line in r.stdout.splitlines():
            if line.startswith("{"):
                try:
                    data = json.loads(line)
                except ValueError:
                    continue
                for f in data.get("files", []):
                    relp = os.path.relpath(f["path"], tmp)
                    checked.append(model.paths.index(relp) if relp in model.paths else -2)
        verdicts = [l[:-5] for l in h.stdout.splitlines() if l.endswith(": OK!")]
        if sorted(verdicts) != sorted(ents[i]["name"] for i in checked if i >= 0):
            names_ok = False
        msgs = sum(1 for l in r.stdout.splitlines() if "not valid" in l)
        viol = judge(model, args, mode, checked, names_ok, msgs, r.returncode, exc)
        sel, rejects, aborts, unspec = expected(model, args, mode == "git")
        digest = dict(ok=True, selected=sorted(model.paths[i] for i in checked if i >= 0), aborted=bool(aborts))
        return dict(digest=digest, violations=[list(x) for x in viol])
    finally:
        shutil.rmtree(tmp, ignore_errors=True)
