"""C02: violation catalogue (DESIGN.md 4.2).  Each operator maps a conforming Prog (harness/families.py)
to candidate edits: (new Prog, acceptable 1-based lines of the expected diagnostic, set of acceptable
codes).  Operators work on the generator's structured output, so the edited line is known by
construction; slot contents stay symbolic in the check."""
from harness.families import Line, Prog, Slot, width

OPS = {}


def op(name, *codes):
    def deco(fn):
        OPS[name] = (fn, set(codes))
        return fn
    return deco


def clone_with(prog, idx, new_lines):
    """replace line idx by new_lines (list of Line)"""
    p = prog.clone()
    p.lines = p.lines[:idx] + list(new_lines) + p.lines[idx + 1:]
    return p


def mod_line(prog, idx, parts):
    l = prog.lines[idx].copy()
    l.parts = list(parts)
    return clone_with(prog, idx, [l])


def lines_of(prog, *kinds):
    return [i for i, l in enumerate(prog.lines) if l.kind in kinds]


CODE_KINDS = ("stmt", "decl", "global", "include", "define", "proto", "func_sig", "ctrl")


def spread(xs, k=4):
    xs = list(xs)
    if len(xs) <= k:
        return xs
    step = len(xs) / k
    return [xs[int(i * step)] for i in range(k)]


def spread_by_kind(p, idx, k=5):
    """at most k line indices, but at least one per (line kind, keyword / statement kind) present"""
    seen, first = set(), []
    for i in idx:
        l = p.lines[i]
        key = (l.kind, l.meta.get("kw") or l.meta.get("stmt"))
        if key not in seen:
            seen.add(key)
            first.append(i)
    rest = [i for i in spread(idx, k) if i not in first]
    return sorted(first + rest[:max(0, k - len(first))])


def fits(prog, idx):
    return width(prog.lines[idx].default_text()) <= 80


# ------------------------------------------------------------------ whitespace and layout
@op("01_trailing_space", "SPC_BEFORE_NL")
def trailing_space(p):
    for i in spread_by_kind(p, lines_of(p, *CODE_KINDS), 8):
        q = mod_line(p, i, p.lines[i].parts + [" "])
        if fits(q, i):
            yield q, [i + 1]


@op("02_trailing_tab", "SPC_BEFORE_NL", "TAB_INSTEAD_SPC")
def trailing_tab(p):
    for i in spread(lines_of(p, "stmt", "decl", "func_close", "rbrace")):
        yield mod_line(p, i, p.lines[i].parts + ["\t"]), [i + 1]


def _indent_parts(l):
    """(index of the indentation part, tabs) for statement-like lines whose first part is the tab run"""
    if l.parts and isinstance(l.parts[0], str) and l.parts[0] and set(l.parts[0]) == {"\t"}:
        return 0, len(l.parts[0])
    return None, 0


@op("03_space_indent", "SPACE_REPLACE_TAB", "TOO_FEW_TAB")
def space_indent(p):
    for i in spread(lines_of(p, "stmt", "ctrl")):
        k, n = _indent_parts(p.lines[i])
        if k is None:
            continue
        q = mod_line(p, i, [" " * (4 * n)] + p.lines[i].parts[1:])
        if fits(q, i):
            yield q, [i + 1]


@op("04_extra_indent_tab", "TOO_MANY_TAB")
def extra_tab(p):
    for i in spread(lines_of(p, "stmt", "ctrl")):
        k, n = _indent_parts(p.lines[i])
        if k is None:
            continue
        q = mod_line(p, i, ["\t" * (n + 1)] + p.lines[i].parts[1:])
        if fits(q, i):
            yield q, [i + 1]


@op("05_missing_indent_tab", "TOO_FEW_TAB")
def missing_tab(p):
    for i in spread(lines_of(p, "stmt", "ctrl")):
        k, n = _indent_parts(p.lines[i])
        if k is None or n < 1:
            continue
        yield mod_line(p, i, ["\t" * (n - 1)] + p.lines[i].parts[1:]), [i + 1]


@op("06_blank_with_space", "SPACE_EMPTY_LINE")
def blank_space(p):
    for i in spread(lines_of(p, "blank", "blank_decl")):
        for ws in (" ", "\t"):
            yield mod_line(p, i, [ws]), [i + 1]


@op("07_double_empty_line", "CONSECUTIVE_NEWLINES")
def double_blank(p):
    for i in spread(lines_of(p, "blank")):
        if i < 12:
            continue
        yield clone_with(p, i, [p.lines[i].copy(), Line([""], "blank")]), [i + 1, i + 2]


@op("08_empty_line_in_function", "EMPTY_LINE_FUNCTION")
def blank_in_func(p):
    idx = [i for i in lines_of(p, "stmt") if i + 1 < len(p.lines) and p.lines[i + 1].kind in ("stmt", "ctrl")]
    for i in spread(idx):
        yield clone_with(p, i, [p.lines[i].copy(), Line([""], "blank")]), [i + 2]


@op("10_empty_line_at_eof", "EMPTY_LINE_EOF")
def blank_eof(p):
    q = p.clone()
    q.lines = q.lines + [Line([""], "blank")]
    yield q, [len(q.lines), len(q.lines) + 1]


@op("11_no_empty_line_between_functions", "NEWLINE_PRECEDES_FUNC")
def no_blank_between_funcs(p):
    for i in lines_of(p, "func_sig"):
        if i > 0 and p.lines[i - 1].kind == "blank" and i > 1 and p.lines[i - 2].kind == "func_close":
            q = p.clone()
            del q.lines[i - 1]
            yield q, [i]


@op("12_no_empty_line_after_decls", "NL_AFTER_VAR_DECL")
def no_blank_after_decls(p):
    for i in lines_of(p, "blank_decl"):
        q = p.clone()
        del q.lines[i]
        yield q, [i, i + 1]


def _space_parts(l):
    """(part index, offset) of single spaces inside string parts that sit between two non-blank characters"""
    out = []
    if l.kind not in ("stmt", "ctrl"):
        return out
    for k, part in enumerate(l.parts):
        if k == 0 or not isinstance(part, str):
            continue
        for j, ch in enumerate(part):
            if ch == " ":
                out.append((k, j))
    return out


@op("13_double_space", "CONSECUTIVE_SPC")
def double_space(p):
    cands = [(i, k, j) for i in lines_of(p, "stmt", "ctrl") for k, j in _space_parts(p.lines[i])]
    for i, k, j in spread(cands):
        parts = list(p.lines[i].parts)
        parts[k] = parts[k][:j] + " " + parts[k][j:]
        q = mod_line(p, i, parts)
        if fits(q, i):
            yield q, [i + 1]


@op("14_tab_for_space", "TAB_INSTEAD_SPC")
def tab_for_space(p):
    cands = [(i, k, j) for i in lines_of(p, "stmt", "ctrl") for k, j in _space_parts(p.lines[i])]
    for i, k, j in spread(cands):
        parts = list(p.lines[i].parts)
        parts[k] = parts[k][:j] + "\t" + parts[k][j + 1:]
        q = mod_line(p, i, parts)
        if fits(q, i):
            yield q, [i + 1]


# ------------------------------------------------------------------ declarations and names
def _decl_tab_part(l):
    """index of the tab run between type and name in a decl/global line"""
    for k, part in enumerate(l.parts):
        if k > 0 and isinstance(part, str) and part and set(part) == {"\t"}:
            return k
    return None


@op("18_space_between_type_and_name", "SPACE_REPLACE_TAB")
def space_type_name(p):
    for i in spread(lines_of(p, "decl", "global")):
        k = _decl_tab_part(p.lines[i])
        if k is None:
            continue
        parts = list(p.lines[i].parts)
        parts[k] = " "
        yield mod_line(p, i, parts), [i + 1]


@op("19_misaligned_declaration", "MISALIGNED_VAR_DECL")
def misaligned_decl(p):
    decls = lines_of(p, "decl")
    for i in spread(decls):
        same = [j for j in decls if p.lines[j].func == p.lines[i].func]
        if len(same) < 2 or i == same[0]:
            continue
        k = _decl_tab_part(p.lines[i])
        parts = list(p.lines[i].parts)
        parts[k] = parts[k] + "\t"
        q = mod_line(p, i, parts)
        if fits(q, i):
            yield q, [i + 1]


@op("20_declaration_after_statement", "VAR_DECL_START_FUNC")
def decl_after_stmt(p):
    for b in lines_of(p, "blank_decl"):
        # first statement of the function is a plain depth-1 statement followed by something
        if b + 2 < len(p.lines) and p.lines[b + 1].kind == "stmt" and p.lines[b + 1].depth == 1 \
                and p.lines[b + 1].meta.get("stmt") not in ("return",) and p.lines[b + 2].kind in ("stmt", "ctrl"):
            d = p.lines[b - 1]
            if d.kind != "decl":
                continue
            q = p.clone()
            moved = q.lines.pop(b - 1)
            # after removing, the blank is at b-1 and the first statement at b
            q.lines.insert(b + 1, moved)
            if any(l.kind == "decl" and l.func == d.func for l in q.lines[:b]):
                yield q, [b + 2]


@op("21_declaration_with_initialisation", "DECL_ASSIGN_LINE")
def decl_assign(p):
    for i in spread(lines_of(p, "decl")):
        parts = list(p.lines[i].parts)
        if parts[-1] != ";" or "[" in parts:
            continue
        q = mod_line(p, i, parts[:-1] + [" = 0;"])
        if fits(q, i):
            yield q, [i + 1]


@op("22_two_declarations_on_a_line", "MULT_DECL_LINE")
def mult_decl(p):
    for i in spread(lines_of(p, "decl")):
        parts = list(p.lines[i].parts)
        if parts[-1] != ";":
            continue
        q = mod_line(p, i, parts[:-1] + [", zz;"])
        if fits(q, i):
            yield q, [i + 1]


@op("24_declaration_in_block", "WRONG_SCOPE_VAR")
def decl_in_block(p):
    for i in spread(lines_of(p, "lbrace")):
        d = p.lines[i].depth + 1
        q = clone_with(p, i, [p.lines[i].copy(), Line(["\t" * d, "int", "\t", "zz", ";"], "decl", d, p.lines[i].func)])
        yield q, [i + 2]


def _rename(prog, slot, new):
    """replace every occurrence of `slot` by `new` (a concrete string or another Slot)"""
    q = prog.clone()
    for l in q.lines:
        l.parts = [new if (isinstance(x, Slot) and x.id == slot.id) else x for x in l.parts]
    return q


@op("26_global_without_prefix", "GLOBAL_VAR_NAMING")
def global_no_prefix(p):
    for i in lines_of(p, "global"):
        for x in p.lines[i].parts:
            if isinstance(x, Slot) and x.kind == "pid:g_":
                yield _rename(p, x, "x" + x.default[1:]), [i + 1]


@op("27_uppercase_in_variable", "FORBIDDEN_CHAR_NAME")
def upper_var(p):
    for i in spread(lines_of(p, "decl")):
        v = p.lines[i].meta.get("var")
        if v is not None and v.default[0].isalpha():
            yield _rename(p, v, v.default[0].upper() + v.default[1:]), [i + 1]


@op("28_uppercase_in_function_name", "FORBIDDEN_CHAR_NAME")
def upper_func(p):
    for i in lines_of(p, "func_sig"):
        f = p.lines[i].meta.get("name")
        if f is not None:
            yield _rename(p, f, f.default[0].upper() + f.default[1:]), [i + 1]


# ------------------------------------------------------------------ functions
@op("30_space_before_function_name", "SPACE_BEFORE_FUNC")
def space_before_func(p):
    for i in lines_of(p, "func_sig"):
        parts = list(p.lines[i].parts)
        if parts[1] == "\t":
            parts[1] = " "
            yield mod_line(p, i, parts), [i + 1]


@op("31_two_tabs_before_function_name", "TOO_MANY_TABS_FUNC")
def two_tabs_func(p):
    for i in lines_of(p, "func_sig"):
        parts = list(p.lines[i].parts)
        if parts[1] == "\t":
            parts[1] = "\t\t"
            q = mod_line(p, i, parts)
            if fits(q, i):
                yield q, [i + 1]


@op("32_empty_parameter_list", "NO_ARGS_VOID")
def no_args_void(p):
    for i in lines_of(p, "func_sig"):
        parts = list(p.lines[i].parts)
        if "void" in parts[4:]:
            k = parts.index("void", 4)
            yield mod_line(p, i, parts[:k] + parts[k + 1:]), [i + 1]


@op("33_unnamed_parameter", "MISSING_IDENTIFIER")
def unnamed_param(p):
    for i in lines_of(p, "func_sig"):
        parts = list(p.lines[i].parts)
        for k, x in enumerate(parts):
            if isinstance(x, Slot) and x.role == "param" and isinstance(parts[k - 1], str) and parts[k - 1].endswith(" "):
                new = parts[:k - 1] + [parts[k - 1].rstrip(" ")] + parts[k + 1:]
                yield mod_line(p, i, new), [i + 1]
                break


@op("37_brace_on_signature_line", "BRACE_NEWLINE")
def brace_same_line(p):
    for i in lines_of(p, "func_sig"):
        if p.lines[i + 1].kind == "func_open":
            q = p.clone()
            q.lines[i].parts = q.lines[i].parts + [" {"]
            del q.lines[i + 1]
            if fits(q, i):
                yield q, [i + 1]


@op("38_statement_after_brace", "BRACE_SHOULD_EOL")
def stmt_after_brace(p):
    for i in spread(lines_of(p, "lbrace", "rbrace")):
        q = mod_line(p, i, p.lines[i].parts + [" zz = 0;"])
        yield q, [i + 1]


# ------------------------------------------------------------------ control flow and statements
def _insert_stmt(p, parts_after_indent, kind="stmt"):
    """candidate programs with a new depth-1 statement inserted before the last statement of each function"""
    for c in lines_of(p, "func_close"):
        j = c - 1
        if p.lines[j].kind == "stmt" and p.lines[j].depth == 1:
            n_body = sum(1 for l in p.lines if l.func == p.lines[c].func and l.kind not in ("func_sig", "func_open", "func_close"))
            if n_body >= 25:
                continue
            q = p.clone()
            q.lines.insert(j, Line(["\t"] + list(parts_after_indent), kind, 1, p.lines[c].func))
            yield q, [j + 1]


@op("41_for_loop", "FORBIDDEN_CS")
def for_loop(p):
    for i in spread(lines_of(p, "ctrl")):
        l = p.lines[i]
        if l.meta.get("kw") == "while":
            parts = list(l.parts)
            parts[1] = "for (;"
            parts[-1] = ";)"
            q = mod_line(p, i, parts)
            if fits(q, i):
                yield q, [i + 1]


@op("43_goto", "GOTO_FBIDDEN")
def goto(p):
    yield from _insert_stmt(p, ["goto end;"])


@op("44_label", "LABEL_FBIDDEN")
def label(p):
    for q, ls in _insert_stmt(p, ["end:"]):
        i = ls[0] - 1
        q.lines[i].parts = ["end:"]
        yield q, ls


@op("45b_ternary_elsewhere", "TERNARY_FBIDDEN")
def ternary_elsewhere(p):
    """a ternary as call argument, in a return value, in a condition"""
    for i in spread_by_kind(p, [i for i in lines_of(p, "stmt") if p.lines[i].meta.get("stmt") in ("call", "return")], 4):
        l = p.lines[i]
        parts = list(l.parts)
        if l.meta.get("stmt") == "call" and "(" in parts and parts[-1] == ");":
            k = parts.index("(")
            q = mod_line(p, i, parts[:k + 1] + ["zz ? 1 : 2", ");"])
            yield q, [i + 1], "call-argument"
        elif l.meta.get("stmt") == "return" and "return (" in parts and parts[-1] == ");":
            k = parts.index("return (")
            q = mod_line(p, i, parts[:k + 1] + ["zz ? 1 : 2", ");"])
            yield q, [i + 1], "return-value"
    for i in spread_by_kind(p, lines_of(p, "ctrl"), 3):
        l = p.lines[i]
        if l.meta.get("kw") in ("if", "while", "else if"):
            yield mod_line(p, i, [l.parts[0], l.meta["kw"] + " (zz ? 1 : 2)"]), [i + 1], "condition"


@op("78b_tag_without_prefix", "STRUCT_TYPE_NAMING", "ENUM_TYPE_NAMING", "UNION_TYPE_NAMING")
def tag_without_prefix(p):
    for i in lines_of(p, "utype_open"):
        l = p.lines[i]
        if l.meta.get("plain") and isinstance(l.meta.get("tag"), Slot):
            tag = l.meta["tag"]
            new = Slot("idnp", "x" + tag.default[1:].replace("_", "a", 1) if len(tag.default) > 2 else "xa", "tag")
            yield _rename(p, tag, new), [i + 1]


@op("79_declaration_before_guard", "HEADER_PROT_ALL")
def decl_before_guard(p):
    for i in lines_of(p, "guard_ifndef"):
        q = p.clone()
        q.lines[i:i] = [Line(["int\tearly(void);"], "proto"), Line([""], "blank")]
        yield q, [i + 3]


@op("45_ternary", "TERNARY_FBIDDEN")
def ternary(p):
    for i in spread(lines_of(p, "stmt")):
        l = p.lines[i]
        if l.meta.get("stmt") == "assign" and " = " in l.parts:
            k = l.parts.index(" = ")
            lhs = l.parts[:k + 1]
            q = mod_line(p, i, lhs + ["1 ? 2 : 3;"])
            if fits(q, i):
                yield q, [i + 1]


@op("46_assignment_in_condition", "ASSIGN_IN_CONTROL")
def assign_in_cond(p):
    for i in spread_by_kind(p, lines_of(p, "ctrl")):
        l = p.lines[i]
        if l.meta.get("kw") in ("if", "while", "else if"):
            q = mod_line(p, i, [l.parts[0], l.meta["kw"] + " (zz = 1)"])
            yield q, [i + 1]
            q = mod_line(p, i, [l.parts[0], l.meta["kw"] + " ((zz = 1) > 0)"])
            yield q, [i + 1]


@op("47_keyword_glued_to_parenthesis", "SPACE_AFTER_KW")
def kw_glued(p):
    for i in spread_by_kind(p, lines_of(p, "ctrl")):
        l = p.lines[i]
        kw = l.meta.get("kw")
        if kw in ("if", "while", "else if"):
            parts = list(l.parts)
            parts[1] = parts[1].replace(" (", "(")
            yield mod_line(p, i, parts), [i + 1]


def _returns(p):
    return [i for i in lines_of(p, "stmt") if p.lines[i].meta.get("stmt") == "return" and "return (" in p.lines[i].parts]


@op("48_return_without_parentheses", "RETURN_PARENTHESIS")
def return_no_par(p):
    for i in spread(_returns(p)):
        parts = list(p.lines[i].parts)
        k = parts.index("return (")
        if parts[-1] == ");":
            yield mod_line(p, i, parts[:k] + ["return "] + parts[k + 1:-1] + [";"]), [i + 1]


@op("49_return_glued", "SPACE_AFTER_KW")
def return_glued(p):
    for i in spread(_returns(p)):
        parts = list(p.lines[i].parts)
        k = parts.index("return (")
        parts[k] = "return("
        yield mod_line(p, i, parts), [i + 1]


@op("51_two_statements_on_a_line", "TOO_MANY_INSTR")
def two_statements(p):
    for i in spread([i for i in lines_of(p, "stmt") if p.lines[i].meta.get("stmt") in ("assign", "call", "incdec", "opassign")]):
        q = mod_line(p, i, p.lines[i].parts + [" zz = 0;"])
        if fits(q, i):
            yield q, [i + 1]


@op("50_statement_after_control", "TOO_MANY_INSTR")
def stmt_after_control(p):
    # one site per (keyword, what follows the merged line): a one-line control statement behaves differently in front of
    # another statement, an else branch, a closing brace of a block and the closing brace of the function
    seen, sites = set(), []
    for i in lines_of(p, "ctrl"):
        if p.lines[i].meta.get("kw") in ("if", "while", "else", "else if") and i + 1 < len(p.lines) and p.lines[i + 1].kind == "stmt":
            nxt = p.lines[i + 2] if i + 2 < len(p.lines) else None
            key = (p.lines[i].meta.get("kw"), (nxt.meta.get("kw") or nxt.kind) if nxt is not None else "eof")
            if key not in seen:
                seen.add(key)
                sites.append(i)
    for i in sites:
        if True:
            q = p.clone()
            body = q.lines.pop(i + 1)
            q.lines[i].parts = q.lines[i].parts + [" "] + body.parts[1:]
            if fits(q, i):
                yield q, [i + 1]


@op("52_double_assignment", "MULT_ASSIGN_LINE")
def double_assign(p):
    for i in spread([i for i in lines_of(p, "stmt") if p.lines[i].meta.get("stmt") == "assign" and " = " in p.lines[i].parts]):
        parts = list(p.lines[i].parts)
        k = parts.index(" = ")
        q = mod_line(p, i, parts[:k] + [" = zz"] + parts[k:])
        if fits(q, i):
            yield q, [i + 1]


@op("53_keyword_without_space", "SPACE_AFTER_KW")
def kw_no_space(p):
    for i in spread(lines_of(p, "stmt")):
        parts = list(p.lines[i].parts)
        for a, b in (("break ;", "break;"), ("continue ;", "continue;"), ("return ;", "return;")):
            if a in parts:
                parts[parts.index(a)] = b
                yield mod_line(p, i, parts), [i + 1]


# ------------------------------------------------------------------ operators, commas, parentheses
def _binop_sites(p):
    out = []
    for i in lines_of(p, "stmt", "ctrl"):
        parts = p.lines[i].parts
        for k in range(1, len(parts) - 1):
            if isinstance(parts[k], Slot) and parts[k].kind in ("binop1", "binop2") and parts[k - 1] == " " and parts[k + 1] == " ":
                out.append((i, k))
    return out


@op("55_no_space_before_operator", "SPC_BFR_OPERATOR")
def no_space_before_op(p):
    for i, k in spread(_binop_sites(p)):
        parts = list(p.lines[i].parts)
        hint = f"{_desc(parts[k - 2] if k >= 2 else None)}~{parts[k].kind}"
        del parts[k - 1]
        yield mod_line(p, i, parts), [i + 1], hint


@op("56_no_space_after_operator", "SPC_AFTER_OPERATOR")
def no_space_after_op(p):
    for i, k in spread(_binop_sites(p)):
        parts = list(p.lines[i].parts)
        nxt = parts[k + 2] if k + 2 < len(parts) else None
        # the unary-looking cases ('a -1', 'a *b', 'a &b', 'a +1') are ambiguous spellings of unary operators: skip
        if parts[k].default in "+-*&" or isinstance(nxt, Slot) and nxt.kind in ("unop1", "incdec"):
            continue
        hint = f"{parts[k].kind}~{_desc(nxt)}"
        del parts[k + 1]
        yield mod_line(p, i, parts), [i + 1], hint


def _comma_sites(p):
    return [(i, k) for i in lines_of(p, "stmt", "ctrl", "func_sig", "proto") for k, x in enumerate(p.lines[i].parts) if x == ", "]


@op("57_no_space_after_comma", "SPC_AFTER_OPERATOR")
def no_space_after_comma(p):
    for i, k in spread(_comma_sites(p)):
        parts = list(p.lines[i].parts)
        hint = f",~{_desc(parts[k + 1] if k + 1 < len(parts) else None)}"
        parts[k] = ","
        yield mod_line(p, i, parts), [i + 1], hint


@op("58_space_before_comma", "NO_SPC_BFR_OPR")
def space_before_comma(p):
    for i, k in spread(_comma_sites(p)):
        parts = list(p.lines[i].parts)
        parts[k] = " , "
        q = mod_line(p, i, parts)
        if fits(q, i):
            yield q, [i + 1]


def _paren_sites(p, ch):
    out = []
    for i in lines_of(p, "stmt", "ctrl"):
        for k, x in enumerate(p.lines[i].parts):
            if k > 0 and isinstance(x, str) and ch in x and '"' not in x:
                out.append((i, k, x.index(ch) if ch == "(" else x.rindex(ch)))
    return out


@op("60_space_after_open_parenthesis", "NO_SPC_AFR_PAR", "SPC_AFTER_PAR")
def space_after_lpar(p):
    for i, k, j in spread(_paren_sites(p, "(")):
        parts = list(p.lines[i].parts)
        nxt = parts[k][j + 1:] or (parts[k + 1] if k + 1 < len(parts) else ")")
        nxt = nxt if isinstance(nxt, str) else nxt.default
        if nxt[:1] in (")", "", " "):
            continue
        parts[k] = parts[k][:j + 1] + " " + parts[k][j + 1:]
        q = mod_line(p, i, parts)
        if fits(q, i):
            yield q, [i + 1]


@op("61_space_before_close_parenthesis", "NO_SPC_BFR_PAR")
def space_before_rpar(p):
    for i, k, j in spread(_paren_sites(p, ")")):
        parts = list(p.lines[i].parts)
        prev = parts[k][:j] or (parts[k - 1] if k > 0 else "(")
        prev = prev if isinstance(prev, str) else prev.default
        if prev[-1:] in ("(", "", " ", "\t"):
            continue
        hint = f"{_desc(prev[-1:])}~)"
        parts[k] = parts[k][:j] + " " + parts[k][j:]
        q = mod_line(p, i, parts)
        if fits(q, i):
            yield q, [i + 1], hint


# ------------------------------------------------------------------ comments
@op("64_comment_in_function", "WRONG_SCOPE_COMMENT")
def comment_in_func(p):
    for form in (["/* note */"], ["// note"]):
        yield from _insert_stmt(p, form, kind="comment_in_func")


# ------------------------------------------------------------------ preprocessor
def _first_top(p):
    for i, l in enumerate(p.lines):
        if l.kind not in ("header",):
            return i
    return 0


def _add_directive(p, text, need_blank_after=True):
    """insert a directive line right after the header's blank line (top of the file)"""
    q = p.clone()
    i = 12 if len(q.lines) > 12 and q.lines[11].kind == "blank" else _first_top(q)
    new = [Line([text], "define")]
    if q.lines[i].kind not in ("include", "define", "blank"):
        new.append(Line([""], "blank"))
    q.lines = q.lines[:i] + new + q.lines[i:]
    return q, i + 1


@op("66_lowercase_macro", "MACRO_NAME_CAPITAL")
def lower_macro(p):
    if p.name.endswith(".c"):
        q, ln = _add_directive(p, "#define lower 1")
        yield q, [ln]


@op("67_function_like_macro", "MACRO_FUNC_FORBIDDEN")
def func_macro(p):
    if p.name.endswith(".c"):
        q, ln = _add_directive(p, "#define FMAC(x) x")
        yield q, [ln]


@op("68_non_constant_define", "PREPROC_CONSTANT")
def nonconst_define(p):
    if p.name.endswith(".c"):
        for t in ("#define VAL (1 + 2)", "#define VAL 1 2"):
            q, ln = _add_directive(p, t)
            yield q, [ln]


@op("69_include_after_code", "INCLUDE_START_FILE")
def include_after_code(p):
    if not p.name.endswith(".c"):
        return
    q = p.clone()
    q.lines = q.lines + [Line([""], "blank"), Line(['#include "late.h"'], "include")]
    yield q, [len(q.lines)]


@op("70_include_c_file", "INCLUDE_HEADER_ONLY")
def include_c(p):
    if p.name.endswith(".c"):
        q, ln = _add_directive(p, '#include "other.c"')
        yield q, [ln]


@op("72_directive_not_at_line_start", "PREPROC_START_LINE")
def directive_indented(p):
    if p.name.endswith(".c"):
        q, ln = _add_directive(p, " #define VAL 1")
        yield q, [ln]


@op("74_directive_in_function", "PREPOC_ONLY_GLOBAL")
def directive_in_func(p):
    for q, ls in _insert_stmt(p, ["#define VAL 1"]):
        q.lines[ls[0] - 1].parts = ["#define VAL 1"]
        yield q, ls


# ------------------------------------------------------------------ types
@op("77_struct_in_c_file", "FORBIDDEN_STRUCT", "FORBIDDEN_TYPEDEF")
def struct_in_c(p):
    if not p.name.endswith(".c"):
        return
    q = p.clone()
    i = 12
    new = [Line(["struct s_pt"], "utype_open"), Line(["{"], "utype_lbrace"), Line(["\tint\tx;"], "member", 1), Line(["};"], "utype_close"),
           Line([""], "blank")]
    if q.lines[i].kind in ("include", "define"):
        while q.lines[i].kind in ("include", "define"):
            i += 1
        i += 1
    q.lines = q.lines[:i] + new + q.lines[i:]
    yield q, [i + 1, i + 2, i + 3, i + 4]


# ------------------------------------------------------------------ second batch (DESIGN 4.2 numbers 15-17, 25, 29, 39, 42, 54, 62, 63, 65, 71, 73, 75, 78, 80)
@op("15_mixed_space_tab", "MIXED_SPACE_TAB")
def mixed_space_tab(p):
    for i in spread_by_kind(p, lines_of(p, "stmt", "ctrl")):
        k, n = _indent_parts(p.lines[i])
        if k is None or n < 1:
            continue
        q = mod_line(p, i, ["\t" * n + " "] + p.lines[i].parts[1:])
        if fits(q, i):
            yield q, [i + 1]


@op("16_operator_at_end_of_line", "EOL_OPERATOR")
def eol_operator(p):
    for i, k in spread(_binop_sites(p)):
        l = p.lines[i]
        d = l.depth
        parts = list(l.parts)
        first = l.copy()
        first.parts = parts[:k + 1]                      # ... a +
        second = Line(["\t" * (d + 1)] + parts[k + 2:], "cont", d + 1, l.func)
        q = clone_with(p, i, [first, second])
        yield q, [i + 1, i + 2]


@op("17_comma_at_start_of_line", "COMMA_START_LINE")
def comma_start(p):
    for i, k in spread([(i, k) for i, k in _comma_sites(p) if p.lines[i].kind == "stmt"]):
        l = p.lines[i]
        parts = list(l.parts)
        first = l.copy()
        first.parts = parts[:k]
        second = Line(["\t" * (l.depth + 1), ", "] + parts[k + 1:], "cont", l.depth + 1, l.func)
        yield clone_with(p, i, [first, second]), [i + 1, i + 2]


@op("25_variable_length_array", "VLA_FORBIDDEN")
def vla(p):
    for i in spread(lines_of(p, "decl")):
        parts = list(p.lines[i].parts)
        if parts[-1] == ";" and "[" not in parts:
            # the variable dimension in every position of a 1..3-dimensional array, and inside an expression
            forms = ["[nn]", "[4][nn]", "[nn][4]", "[2][4][nn]", "[2][nn][4]", "[nn + 1]", "[4][nn * 2]"]
            for k, f in enumerate(forms):
                q = mod_line(p, i, parts[:-1] + [f + ";"])
                if fits(q, i):
                    yield q, [i + 1], "dim:" + f.replace("nn", "n")


@op("29_space_after_pointer_star", "SPC_AFTER_POINTER")
def space_after_star(p):
    for i in spread(lines_of(p, "decl")):
        parts = list(p.lines[i].parts)
        for k, x in enumerate(parts):
            if x in ("*", "**"):
                parts[k] = x + " "
                q = mod_line(p, i, parts)
                if fits(q, i):
                    yield q, [i + 1]
                break


@op("39_misaligned_prototype", "MISALIGNED_FUNC_DECL")
def misaligned_proto(p):
    protos = lines_of(p, "proto")
    if len(protos) < 2:
        return
    for i in protos[1:2] + protos[-1:]:
        k = _decl_tab_part(p.lines[i])
        if k is None:
            continue
        parts = list(p.lines[i].parts)
        parts[k] = parts[k] + "\t"
        q = mod_line(p, i, parts)
        if fits(q, i):
            yield q, [i + 1]


@op("42_switch", "FORBIDDEN_CS")
def switch(p):
    for q, ls in _insert_stmt(p, ["switch (zz)"], kind="ctrl"):
        i = ls[0] - 1
        f = q.lines[i].func
        q.lines[i + 1:i + 1] = [Line(["\t{"], "lbrace", 1, f), Line(["\t\tcase 1:"], "stmt", 2, f),
                                Line(["\t\t\tbreak ;"], "stmt", 3, f), Line(["\t}"], "rbrace", 1, f)]
        yield q, [i + 1, i + 3]


@op("54_control_statement_at_file_scope", "WRONG_SCOPE")
def control_at_file_scope(p):
    if not p.name.endswith(".c"):
        return
    for i in lines_of(p, "func_sig")[:1]:
        q = p.clone()
        q.lines[i:i] = [Line(["if (1)"], "ctrl"), Line(["\tzz = 1;"], "stmt", 1), Line([""], "blank")]
        yield q, [i + 1]


def _unop_sites(p):
    out = []
    for i in lines_of(p, "stmt", "ctrl"):
        for k, x in enumerate(p.lines[i].parts):
            if isinstance(x, Slot) and x.kind == "unop1":
                out.append((i, k))
    return out


@op("62_space_after_unary_operator", "SPC_AFTER_OPERATOR", "SPC_AFTER_POINTER")
def space_after_unary(p):
    for i, k in spread(_unop_sites(p)):
        parts = list(p.lines[i].parts)
        if parts[k].default == "!":
            continue                      # '! a' is not enforced by the tool: outside the catalogue
        hint = f"unop:{'ptr' if parts[k].default in '*&' else 'arith'}"
        parts[k:k + 1] = [parts[k], " "]
        q = mod_line(p, i, parts)
        if fits(q, i):
            yield q, [i + 1], hint


@op("63_assignment_without_spaces", "SPC_BFR_OPERATOR", "SPC_AFTER_OPERATOR")
def assign_no_spaces(p):
    for i in spread([i for i in lines_of(p, "stmt") if p.lines[i].meta.get("stmt") == "assign" and " = " in p.lines[i].parts]):
        parts = list(p.lines[i].parts)
        k = parts.index(" = ")
        nxt = parts[k + 1] if k + 1 < len(parts) else None
        if isinstance(nxt, Slot) and nxt.kind in ("unop1", "incdec"):
            continue
        parts[k] = "="
        yield mod_line(p, i, parts), [i + 1]


@op("65_comment_inside_statement", "COMMENT_ON_INSTR")
def comment_in_statement(p):
    for i in spread([i for i in lines_of(p, "stmt") if p.lines[i].meta.get("stmt") == "assign" and " = " in p.lines[i].parts]):
        parts = list(p.lines[i].parts)
        k = parts.index(" = ")
        parts[k] = " = /* c */ "
        q = mod_line(p, i, parts)
        if fits(q, i):
            yield q, [i + 1]


@op("71a_include_without_space", "PREPROC_NO_SPACE")
def include_no_space(p):
    if p.name.endswith(".c"):
        q, ln = _add_directive(p, '#include"glued.h"')
        yield q, [ln]


@op("71b_include_two_spaces", "CONSECUTIVE_WS")
def include_two_spaces(p):
    if p.name.endswith(".c"):
        q, ln = _add_directive(p, '#include  "wide.h"')
        yield q, [ln]


@op("73a_directive_not_indented_in_guard", "PREPROC_BAD_INDENT")
def directive_not_indented(p):
    if not p.name.endswith(".h"):
        return
    for i in lines_of(p, "guard_define"):
        q = p.clone()
        q.lines.insert(i + 2, Line(["#define FLAT 1"], "define"))
        q.lines.insert(i + 3, Line([""], "blank"))
        yield q, [i + 3]


@op("73b_directive_indented_too_much", "TOO_MANY_WS")
def directive_too_indented(p):
    if not p.name.endswith(".h"):
        return
    for i in lines_of(p, "guard_define"):
        q = p.clone()
        q.lines.insert(i + 2, Line(["#  define DEEP 1"], "define"))
        q.lines.insert(i + 3, Line([""], "blank"))
        yield q, [i + 3]


@op("75_endif_without_if", "PREPROC_BAD_ENDIF")
def stray_endif(p):
    if p.name.endswith(".c"):
        q, ln = _add_directive(p, "#endif")
        yield q, [ln]


@op("78_typedef_without_prefix", "USER_DEFINED_TYPEDEF")
def typedef_no_prefix(p):
    if not p.name.endswith(".h"):
        return
    for i in lines_of(p, "utype_close"):
        for x in p.lines[i].parts:
            if isinstance(x, Slot) and x.kind == "pid:t_":
                yield _rename(p, x, "x" + x.default[1:]), [i + 1]


@op("80_struct_in_function", "TYPE_NOT_GLOBAL")
def struct_in_function(p):
    for c in lines_of(p, "func_open")[:2]:
        f = p.lines[c].func
        ndecl = sum(1 for l in p.lines if l.func == f and l.kind == "decl")
        nbody = sum(1 for l in p.lines if l.func == f and l.kind not in ("func_sig", "func_open", "func_close"))
        if nbody > 20:
            continue
        q = p.clone()
        new = [Line(["\tstruct s_in"], "utype_open", 1, f), Line(["\t{"], "utype_lbrace", 1, f),
               Line(["\t\tint\tx;"], "member", 2, f), Line(["\t};"], "utype_close", 1, f)]
        q.lines[c + 1:c + 1] = new
        yield q, [c + 2, c + 3, c + 5]


def _desc(x):
    if x is None:
        return "-"
    if isinstance(x, Slot):
        return x.kind.split(":")[0]
    x = x.strip(" ")
    if not x:
        return "blank"
    c = x[0]
    return "word" if (c.isalnum() or c == "_") else c


def candidates(prog, opname):
    """-> list of (new prog, acceptable lines, acceptable codes, context hint)"""
    fn, codes = OPS[opname]
    out = []
    for r in fn(prog):
        q, lines = r[0], r[1]
        hint = r[2] if len(r) > 2 else prog_kind_hint(q, lines)
        out.append((q, lines, codes, hint))
    return out


def prog_kind_hint(q, lines):
    i = lines[0] - 1
    if 0 <= i < len(q.lines):
        l = q.lines[i]
        return l.kind + (":" + str(l.meta.get("stmt") or l.meta.get("kw")) if (l.meta.get("stmt") or l.meta.get("kw")) else "")
    return "eof"
