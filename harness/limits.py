"""C03: numeric limits are exact at their boundary (iff), end-to-end through the real pipeline.

For every limit L in {80 columns, 25 lines, 5 functions, 4 parameters, 5 variables}, every measure
n in [L-3, L+6] (solver-chosen, one fork each) and a set of contexts; filler text (identifiers, comment
contents) is symbolic.  Assertion: the limit diagnostic is present iff n > L, on the line concerned,
and nowhere else."""
import time
from symx import core
from symx.core import Var, SymStr, Explorer, choose
from symx.poly import conc
from symx.run import Collector
from harness import families as F, pipeline as P

HNAME = "harness.limits"
WIDTH_CTX = ["stmt", "stmt_nested", "linecomment", "linecomment_tab", "eol_comment", "block1", "block_first",
             "block_mid", "block_last", "block_mid_tab", "proto_no_newline", "linecomment_no_newline", "define_string",
             "in_second_function", "header_proto", "header_define", "header_member", "global_decl", "ctrl_line", "decl_line",
             "block_after_function", "eol_comment_block", "two_long_lines_one_statement", "long_second_line_of_statement",
             "line_ending_in_splice", "two_long_lines_in_prototype", "block_mid_between_signature_and_brace",
             "block_mid_in_struct", "block_mid_before_endif", "linecomment_between_signature_and_brace", "block_mid_trigraph",
             "block1_leading_headerless", "linecomment_leading_headerless", "block1_second_leading_headerless"]
LINES_CTX = ["plain", "with_decls", "with_blocks", "second_function", "nested_blocks", "wrapped_call2", "wrapped_call3",
             "wrapped_condition", "wrapped_assign_in_block", "else_chain", "nested_no_braces", "nested_no_braces_3",
             "no_braces_around_block", "no_brace_nest_at_end", "nest_then_else", "nested_in_block",
             "brace_at_eof_no_newline", "brace_then_line_comment", "brace_then_block_comment", "brace_then_blank", "brace_then_function"]
COUNT_CTX = {"funcs": ["plain", "with_protos", "with_globals", "static_functions", "alternating_static", "comment_lines_before_brace",
                       "comment_before_last_brace", "directive_before_last_brace", "multiline_signatures", "with_func_pointer_globals"],
             "params": ["definition", "prototype", "static_definition", "second_function", "header_prototype", "pointer_params",
                        "funcptr_param", "const_first", "multiline_definition", "array_params", "static_prototype"],
             "vars": ["plain", "with_array", "second_function", "with_pointers", "after_five_line_function", "static_locals",
                      "mixed_types"]}


def chunks(tier):
    out = []
    for c in WIDTH_CTX:
        out.append(dict(limit="width", ctx=c))
    for c in LINES_CTX:
        out.append(dict(limit="lines", ctx=c))
    for lim, cs in COUNT_CTX.items():
        for c in cs:
            out.append(dict(limit=lim, ctx=c))
    for k in (0, 1, 2):
        out.append(dict(limit="rope", ctx=f"block{k}"))
    out.append(dict(limit="rope", ctx="line"))
    return out


class B:
    """text builder with symbolic filler"""

    def __init__(self, ex):
        self.ex = ex
        self.items = []
        self.line = 1
        self.k = 0

    def add(self, s):
        for ch in s:
            self.items.append(ch)
            if ch == "\n":
                self.line += 1

    def filler(self, n, chars, first=None):
        """n symbolic characters from `chars`"""
        for i in range(n):
            self.k += 1
            v = Var(f"f{self.k}", map(ord, (first if (i == 0 and first) else chars)))
            self.ex.solver.add(v.domain_constraint())
            self.items.append(v)

    def ident(self, n):
        start = len(self.items)
        self.filler(n, F.LOWD.replace("_", ""), first="abcdefghijkmnopqrstvwxyz")
        F.Slot._exclude(self.ex.solver, self.items[start:], F.C_KEYWORDS + F.SPECIAL_NAMES + ["foo", "first", "main"])


def header(b, name):
    for l in F.header_lines(name):
        b.add(l.default_text() + "\n")
    b.add("\n")


SIMPLE_FUNC = "int\tmain(void)\n{\n\treturn (0);\n}\n"


def build(limit, ctx, n, ex):
    """returns (name, items, expectations) ; expectations: list of (code, line | None, should_be_present)"""
    b = B(ex)
    name = "t.c"
    header(b, name)
    CC = "abcdefghijklmnopqrstuvwxyzABCDEFGHIJKLMNOPQRSTUVWXYZ0123456789 _.,;(){}[]+-=!&|^~#@$'"
    if limit == "width":
        w = n
        target = None
        if ctx in ("stmt", "stmt_nested", "in_second_function"):
            if ctx == "in_second_function":
                b.add("int\tfirst(void)\n{\n\treturn (1);\n}\n\n")
            b.add("int\tmain(void)\n{\n\tint\tx;\n\n")
            if ctx == "stmt_nested":
                b.add("\twhile (x)\n\t{\n\t\tif (x)\n")
                target = b.line
                b.add("\t\t\tx = ")          # width so far 12 + 4
                b.ident(w - 17)
                b.add(";\n\t}\n")
            else:
                target = b.line
                b.add("\tx = ")               # 4 + 4
                b.ident(w - 9)
                b.add(";\n")
            b.add("\treturn (x);\n}\n")
        elif ctx in ("header_proto", "header_define", "header_member", "block_mid_in_struct", "block_mid_before_endif"):
            name = "t.h"
            b.items = []
            b.line = 1
            header(b, name)
            b.add("#ifndef T_H\n# define T_H\n\n")
            if ctx == "header_define":
                target = b.line
                b.add('# define MSG "')          # 14
                b.filler(w - 15, CC.replace("'", ""))
                b.add('"\n\n')
                b.add("int\tfoo(void);\n")
            elif ctx == "block_mid_in_struct":
                b.add("typedef struct s_pt\n{\n\tint\t\tx;\n/*\n")
                target = b.line
                b.add("** ")
                b.filler(w - 3, CC)
                b.add("\n*/\n\tchar\t*name;\n}\tt_pt;\n\nint\tfoo(void);\n")
            elif ctx == "block_mid_before_endif":
                b.add("int\tfoo(void);\n\n/*\n")
                target = b.line
                b.add("** ")
                b.filler(w - 3, CC)
                b.add("\n*/\n")
            elif ctx == "header_member":
                b.add("typedef struct s_pt\n{\n")
                target = b.line
                b.add("\tint\t")                 # col 9
                b.ident(w - 9)
                b.add(";\n}\tt_pt;\n\nint\tfoo(void);\n")
            else:
                target = b.line
                b.add("int\t")
                b.ident(w - 11)
                b.add("(void);\n")
            b.add("\n#endif\n")
        elif ctx == "global_decl":
            target = b.line
            b.add("static int\t")              # 'static int' 10 -> tab to col 13
            b.add("g_")
            b.ident(w - 15)
            b.add(";\n\n" + SIMPLE_FUNC)
        elif ctx in ("ctrl_line", "decl_line"):
            b.add("int\tmain(void)\n{\n")
            if ctx == "decl_line":
                target = b.line
                b.add("\tint\t")                # col 9
                b.ident(w - 9)
                b.add(";\n\n\treturn (0);\n}\n")
            else:
                b.add("\tint\tx;\n\n\tx = 0;\n")
                target = b.line
                b.add("\twhile (x < ")            # 4 + 11 = 15
                b.ident(w - 16)
                b.add(")\n\t\tx++;\n\treturn (x);\n}\n")
        elif ctx in ("two_long_lines_one_statement", "long_second_line_of_statement"):
            b.add("int\tmain(void)\n{\n\tint\tx;\n\n")
            l1 = b.line
            b.add("\tx = foo(")                 # 4 + 8 = 12
            if ctx == "two_long_lines_one_statement":
                b.ident(w - 13)
            else:
                b.add("aa")
            b.add(",\n")
            l2 = b.line
            b.add("\t\t\t")                     # 12
            b.ident(w - 14)
            b.add(");\n\treturn (x);\n}\n")
            exp = [("LINE_TOO_LONG", l2, w > 80)]
            if ctx == "two_long_lines_one_statement":
                exp.insert(0, ("LINE_TOO_LONG", l1, w > 80))
            return name, b.items, exp, l2
        elif ctx == "two_long_lines_in_prototype":
            l1 = b.line
            b.add("int\tfoo(int ")                # 4 + 8 = 12
            b.ident(w - 13)
            b.add(",\n")
            l2 = b.line
            b.add("\t\t\tint ")                 # 12 + 4 = 16
            b.ident(w - 18)
            b.add(");\n\n" + SIMPLE_FUNC)
            return name, b.items, [("LINE_TOO_LONG", l1, w > 80), ("LINE_TOO_LONG", l2, w > 80)], l1
        elif ctx == "line_ending_in_splice":
            b.add("int\tmain(void)\n{\n\tint\tx;\n\n")
            target = b.line
            b.add("\tx = ")                       # 8
            b.ident(w - 12)
            b.add(" + \\\n\t\t1;\n\treturn (x);\n}\n")   # ' + \' = 4 columns
        elif ctx == "define_string":
            target = b.line
            b.add('#define MSG "')          # 13
            b.filler(w - 14, CC.replace("'", ""))
            b.add('"\n\n' + SIMPLE_FUNC)
        else:
            if ctx == "linecomment":
                target = b.line
                b.add("// ")
                b.filler(w - 3, CC)
                b.add("\n")
            elif ctx == "linecomment_tab":
                target = b.line
                b.add("//\t")                 # width 4
                b.filler(w - 4, CC)
                b.add("\n")
            elif ctx == "eol_comment":
                target = b.line
                b.add("int\tmain(void); // ")  # 4 + 11 + 4 = 19 .. "int" + tab -> col 5; "main(void);" 11 -> 15; " // " 4 -> 19
                b.filler(w - 19, CC)
                b.add("\n")
            elif ctx in ("block1_leading_headerless", "linecomment_leading_headerless", "block1_second_leading_headerless"):
                # a file WITHOUT the 42 header whose leading comment block holds the measured line
                b.items, b.line = [], 1
                if ctx == "block1_second_leading_headerless":
                    b.add("/* first */\n")
                target = b.line
                if ctx.startswith("block1"):
                    b.add("/* ")
                    b.filler(w - 6, CC)
                    b.add(" */\n")
                else:
                    b.add("// ")
                    b.filler(w - 3, CC)
                    b.add("\n")
                b.add("\n" + SIMPLE_FUNC)
                return name, b.items, [("LINE_TOO_LONG", target, w > 80)], target
            elif ctx == "block1":
                target = b.line
                b.add("/* ")
                b.filler(w - 6, CC)
                b.add(" */\n")
            elif ctx == "block_first":
                target = b.line
                b.add("/* ")
                b.filler(w - 3, CC)
                b.add("\n** ok\n*/\n")
            elif ctx == "block_mid":
                b.add("/*\n")
                target = b.line
                b.add("** ")
                b.filler(w - 3, CC)
                b.add("\n*/\n")
            elif ctx == "block_mid_trigraph":
                b.add("/*\n")
                target = b.line
                b.add("** ??< ")              # a trigraph inside the comment text: three columns in the source
                b.filler(w - 7, CC)
                b.add("\n*/\n")
            elif ctx == "block_mid_tab":
                b.add("/*\n")
                target = b.line
                b.add("**\t")                 # width 4
                b.filler(w - 4, CC)
                b.add("\n*/\n")
            elif ctx == "block_last":
                b.add("/*\n** ok\n")
                target = b.line
                b.filler(w - 3, CC)
                b.add(" */\n")
            elif ctx == "block_after_function":
                b.add(SIMPLE_FUNC + "\n/*\n")
                target = b.line
                b.add("** ")
                b.filler(w - 3, CC)
                b.add("\n*/\n")
                return name, b.items, [("LINE_TOO_LONG", target, w > 80)], target
            elif ctx in ("block_mid_between_signature_and_brace", "linecomment_between_signature_and_brace"):
                b.add("int\tmain(void)\n")
                if ctx.startswith("block"):
                    b.add("/*\n")
                    target = b.line
                    b.add("** ")
                    b.filler(w - 3, CC)
                    b.add("\n*/\n")
                else:
                    target = b.line
                    b.add("// ")
                    b.filler(w - 3, CC)
                    b.add("\n")
                b.add("{\n\treturn (0);\n}\n")
                return name, b.items, [("LINE_TOO_LONG", target, w > 80)], target
            elif ctx == "eol_comment_block":
                target = b.line
                b.add("int\tmain(void); /* ")  # 19
                b.filler(w - 22, CC)
                b.add(" */\n")
            elif ctx == "proto_no_newline":
                b.add(SIMPLE_FUNC + "\n")
                target = b.line
                b.add("int\t")                # name starts col 5; "(void);" 7
                b.ident(w - 11)
                b.add("(void);")
                return name, b.items, [("LINE_TOO_LONG", target, w > 80)], target
            elif ctx == "linecomment_no_newline":
                b.add(SIMPLE_FUNC + "\n")
                target = b.line
                b.add("// ")
                b.filler(w - 3, CC)
                return name, b.items, [("LINE_TOO_LONG", target, w > 80)], target
            b.add("\n" + SIMPLE_FUNC)
        return name, b.items, [("LINE_TOO_LONG", target, w > 80)], target
    if limit == "lines":
        if ctx == "second_function":
            b.add("int\tfirst(void)\n{\n\treturn (1);\n}\n\n")
        b.add("int\tmain(void)\n{\n")
        body = 0
        if ctx in ("with_decls", "with_blocks", "nested_blocks"):
            b.add("\tint\t")
            b.ident(3)
            b.add(";\n\n")
            body += 2
        close = []
        if ctx == "with_blocks":
            b.add("\twhile (1)\n\t{\n")
            body += 2
            close = ["\t}\n"]
        if ctx == "nested_blocks":
            b.add("\twhile (1)\n\t{\n\t\tif (1)\n\t\t{\n")
            body += 4
            close = ["\t\t}\n", "\t}\n"]
        if ctx in ("wrapped_call2", "wrapped_call3"):
            k = int(ctx[-1])
            b.add("\tfoo(1,\n" + "".join("\t\t%d,\n" % i for i in range(k - 2)) + "\t\t2);\n")
            body += k
        if ctx == "wrapped_condition":
            b.add("\tint\tq;\n\n\tq = 0;\n\twhile (q < 3\n\t\t&& q != 7)\n\t\tq++;\n")
            body += 6
        if ctx == "wrapped_assign_in_block":
            b.add("\tint\tq;\n\n\tq = 0;\n\tif (q)\n\t{\n\t\tq = 1\n\t\t\t+ 2;\n\t}\n")
            body += 8
        if ctx == "else_chain":
            b.add("\tif (1)\n\t\tfoo(1);\n\telse if (2)\n\t\tfoo(2);\n\telse\n\t\tfoo(3);\n")
            body += 6
        # control structures nested WITHOUT braces, closed by one instruction (every header line counts)
        tail = ""
        if ctx == "nested_no_braces":
            b.add("\twhile (1)\n\t\tif (2)\n\t\t\tfoo(1);\n")
            body += 3
        if ctx == "nested_no_braces_3":
            b.add("\twhile (1)\n\t\tif (2)\n\t\t\twhile (3)\n\t\t\t\tfoo(1);\n")
            body += 4
        if ctx == "no_braces_around_block":
            b.add("\twhile (1)\n\t\tif (2)\n\t\t{\n\t\t\tfoo(1);\n\t\t\tfoo(2);\n\t\t}\n")
            body += 6
        if ctx == "nest_then_else":
            b.add("\tif (1)\n\t\twhile (2)\n\t\t\tfoo(1);\n\telse\n\t\twhile (3)\n\t\t\tif (4)\n\t\t\t\tfoo(2);\n")
            body += 7
        if ctx == "nested_in_block":
            b.add("\tif (1)\n\t{\n\t\twhile (2)\n\t\t\tif (3)\n\t\t\t\tfoo(1);\n")
            body += 5
            close = ["\t}\n"]
        if ctx == "no_brace_nest_at_end":
            tail = "\twhile (1)\n\t\tif (2)\n\t\t\tfoo(9);\n"
            body += 3
        depth = 1 + len(close)
        while body < n - 1 - len(close):
            b.add("\t" * depth + "foo(")
            b.ident(2)
            b.add(");\n")
            body += 1
        for c in close:
            b.add(c)
            body += 1
        b.add(tail)
        brace_line = b.line + 1
        # what follows the closing brace of the measured function
        after = {"brace_at_eof_no_newline": "}", "brace_then_line_comment": "} // c\n", "brace_then_block_comment": "} /* c */\n",
                 "brace_then_blank": "} \n", "brace_then_function": "}\n\nint\tnext(void)\n{\n\treturn (1);\n}\n"}.get(ctx, "}\n")
        b.add("\treturn (0);\n" + after)
        body += 1
        assert body == n, (body, n)
        return name, b.items, [("TOO_MANY_LINES", None, n > 25)], None
    if limit == "funcs":
        if ctx == "with_protos":
            b.add("int\tpa(void);\nint\tpb(int a);\n\n")
        if ctx == "with_globals":
            b.add("static int\tg_a = 0;\n\n")
        for i in range(n):
            if i:
                b.add("\n")
            if ctx == "with_func_pointer_globals" and i == 0:
                b.add("static int\t(*g_hook)(int) = NULL;\nstatic int\tg_tab[2] = {1, 2};\n\n")
            b.add("static int\t" if (ctx == "static_functions" or (ctx == "alternating_static" and i % 2)) else "int\t")
            b.ident(4)
            # what stands between the signature and the opening brace (comments and directives are accepted there)
            between = ""
            if ctx == "comment_lines_before_brace" or (ctx == "comment_before_last_brace" and i == n - 1):
                between = "/* one */\n// two\n"
            if ctx == "directive_before_last_brace" and i == n - 1:
                between = "#define LOCAL 1\n"
            if ctx == "multiline_signatures":
                b.add("(int a,\n\tint b)\n" + "{\n\treturn (a + b + %d);\n}\n" % i)
                continue
            b.add("(void)\n" + between + "{\n\treturn (%d);\n}\n" % i)
        return name, b.items, [("TOO_MANY_FUNCS", None, n > 5)], None
    if limit == "params":
        def plist():
            for i in range(n):
                if i:
                    b.add(", ")
                b.add("int ")
                b.ident(2)
        if ctx == "pointer_params":
            def plist():      # noqa: F811
                for i in range(n):
                    if i:
                        b.add(", ")
                    b.add("char *")
                    b.ident(1)
        if ctx == "funcptr_param":
            def plist():      # noqa: F811
                b.add("int (*cb)(int, int)")      # ONE parameter although it contains a comma
                for i in range(1, n):
                    b.add(", int ")
                    b.ident(1)
        if ctx == "const_first":
            def plist():      # noqa: F811
                for i in range(n):
                    if i:
                        b.add(", ")
                    b.add("const int " if i == 0 else "int ")
                    b.ident(1)
        if ctx == "array_params":
            def plist():      # noqa: F811
                for i in range(n):
                    if i:
                        b.add(", ")
                    b.add("int ")
                    b.ident(1)
                    b.add("[]")
        if ctx == "multiline_definition":
            b.add("int\tfoo(")
            for i in range(n):
                if i:
                    b.add(",\n\t\t" if i == (n + 1) // 2 else ", ")
                b.add("int ")
                b.ident(1)
            b.add(")\n{\n\treturn (0);\n}\n")
            return name, b.items, [("TOO_MANY_ARGS", None, n > 4)], None
        if ctx == "static_prototype":
            b.add("static int\tfoo(")
            plist()
            b.add(");\n\n" + SIMPLE_FUNC)
            return name, b.items, [("TOO_MANY_ARGS", None, n > 4)], None
        if ctx == "prototype":
            b.add("int\tfoo(")
            plist()
            b.add(");\n\n" + SIMPLE_FUNC)
        elif ctx == "header_prototype":
            name = "t.h"
            b.items = []
            b.line = 1
            header(b, name)
            b.add("#ifndef T_H\n# define T_H\n\nint\tfoo(")
            plist()
            b.add(");\n\n#endif\n")
        elif ctx == "second_function":
            b.add("int\tfirst(int a, int b)\n{\n\treturn (a + b);\n}\n\nint\tfoo(")
            plist()
            b.add(")\n{\n\treturn (0);\n}\n")
        else:
            b.add(("static " if ctx == "static_definition" else "") + "int\tfoo(")
            plist()
            b.add(")\n{\n\treturn (0);\n}\n")
        return name, b.items, [("TOO_MANY_ARGS", None, n > 4)], None
    if limit == "vars":
        if ctx == "second_function":
            b.add("int\tfirst(void)\n{\n\tint\tq;\n\n\tq = 0;\n\treturn (q);\n}\n\n")
        if ctx == "after_five_line_function":
            b.add("int\tfirst(void)\n{\n\tint\ta;\n\tint\tb;\n\tint\tc;\n\tint\td;\n\tint\te;\n\n\treturn (0);\n}\n\n")
        b.add("int\tmain(void)\n{\n")
        for i in range(n):
            if ctx == "static_locals" and i % 2 == 0:
                b.add("\tstatic int\t")
            elif ctx == "static_locals":
                b.add("\tint\t\t\t")
            elif ctx == "mixed_types":
                b.add(["\tint\t\t\t", "\tunsigned int\t", "\tchar\t\t*", "\tlong long\t"][i % 4])
            else:
                b.add("\tint\t" if ctx != "with_pointers" else "\tchar\t*")
            b.ident(3)
            if ctx == "with_array" and i == 1:
                b.add("[4]")
            b.add(";\n")
        b.add("\n\treturn (0);\n}\n")
        return name, b.items, [("TOO_MANY_VARS_FUNC", None, n > 5)], None
    raise ValueError(limit)


LIMITS = {"width": 80, "lines": 25, "funcs": 5, "params": 4, "vars": 5}
LIMIT_CODES = ("LINE_TOO_LONG", "TOO_MANY_LINES", "TOO_MANY_FUNCS", "TOO_MANY_ARGS", "TOO_MANY_VARS_FUNC")


def judge(limit, ctx, n, o, expect):
    """-> [(fingerprint, what)]"""
    v = []
    L = LIMITS[limit]
    side = "over" if n > L else "at-or-under"
    if o.kind != "ok":
        v.append((f"C03:{limit}:{ctx}:{side}:{o.kind}:{o.detail}", f"{limit}={n} in context {ctx}: analysis ends with {o.kind} {o.detail} {o.site}"))
        return v
    for code, line, present in expect:
        hits = [e for e in o.errors if e[0] == code]
        on_line = [e for e in hits if line is None or e[2] == line]
        if present and not on_line:
            v.append((f"C03:{limit}:{ctx}:missing", f"{limit}={n} (> {L}) in context {ctx}: {code} is not reported" + (f" on line {line}" if line else "")))
        if not present and hits:
            v.append((f"C03:{limit}:{ctx}:spurious", f"{limit}={n} (<= {L}) in context {ctx}: {code} is reported"))
        allowed = {l for c, l, pr in expect if c == code and pr and l is not None}
        if present and line is not None and any(e[2] not in allowed for e in hits):
            v.append((f"C03:{limit}:{ctx}:elsewhere", f"{code} is also reported on a line that is within the limit"))
    # no other limit diagnostic may appear
    other = sorted({e[0] for e in o.errors if e[0] in LIMIT_CODES and e[0] not in [c for c, _, _ in expect]
                    and not (e[0] == "LINE_TOO_LONG" and limit == "params")})
    if other:
        v.append((f"C03:{limit}:{ctx}:other:{'+'.join(other)}", f"unrelated limit diagnostics {other}"))
    return v


def run_rope(chunk, ctx):
    """state injection (DESIGN 4.3a): a comment token whose column and line widths are unbounded solver
    integers, through the real Registry.run (IsComment + CheckCommentLineLen + CheckLineLen + ...)."""
    import io
    import contextlib
    import z3
    from symx.core import SymInt, Rope, Blk
    from norminette.file import File
    from norminette.lexer.tokens import Token
    from norminette.context import Context
    cx = chunk["ctx"]
    ex = Explorer()
    core.set_run(ex)
    col = Collector(HNAME, seed=ctx["seed"], sample_rate=1.0)
    colv = z3.Int("col")
    ns = [z3.Int(f"n{i}") for i in range(4)]
    ex.solver.add(colv >= 1, *[n >= 0 for n in ns])
    interior = int(cx[5:]) if cx.startswith("block") else 0
    cur = {}

    def body():
        cur.clear()
        core.ROPE_MODE = True
        try:
            c = SymInt(colv)
            if cx == "line":
                val = Rope(["//", Blk(ns[0])])
                W = {5: colv - 1 + 2 + ns[0]}
                endcol = c + 2 + SymInt(ns[0])
                endline = 5
            else:
                parts = ["/*", Blk(ns[0])]
                W = {5: colv - 1 + 2 + ns[0]}
                for k in range(interior):
                    parts += ["\n", Blk(ns[1 + k])]
                    W[6 + k] = ns[1 + k]
                last = 5 + interior
                if interior == 0:
                    parts += ["*/"]
                    W[5] = colv - 1 + 2 + ns[0] + 2
                    endcol = c + 4 + SymInt(ns[0])
                else:
                    parts += ["\n", Blk(ns[3]), "*/"]
                    last += 1
                    W[last] = ns[3] + 2
                    endcol = SymInt(ns[3]) + 3
                endline = last
                val = Rope(parts)
            toks = [Token("MULT_COMMENT" if cx != "line" else "COMMENT", (5, c), val), Token("NEWLINE", (endline, endcol))]
            f = File("t.c", "x")
            cctx = Context(f, toks, 0, None)
            cctx.header_parsed = True
            with contextlib.redirect_stdout(io.StringIO()):
                P.registry().run(cctx)
        finally:
            core.ROPE_MODE = False
        reported = set()
        for e in f.errors._inner:
            if e.name == "LINE_TOO_LONG":
                ln = e.highlights[0].lineno
                reported.add(ln if isinstance(ln, int) else ln.concretize())
        kinds = {5: "first"}
        for ln in W:
            if ln != 5:
                kinds[ln] = "last" if (ln == max(W) and cx != "line") else "interior"
        for ln, w in W.items():
            rep = ln in reported
            cond = (w <= 80) if rep else (w > 80)
            if ex.feasible(cond):
                m = ex.solver.model()
                vals = {str(d): m[d].as_long() for d in m.decls() if str(d) in ("col", "n0", "n1", "n2", "n3")}
                col.violation(f"C03:rope:{cx}:{kinds[ln]}:{'spurious' if rep else 'missing'}",
                              f"{'block' if cx != 'line' else '//'} comment, {kinds[ln]} line: LINE_TOO_LONG {'reported' if rep else 'not reported'} at width {m.eval(w, model_completion=True)}",
                              dict(limit="rope", ctx=cx, col=vals.get("col", 1), ns=[vals.get(f"n{i}", 0) for i in range(4)]))
                cur["viol"] = True
        return dict(reported=sorted(reported))

    def on_path(res, status):
        if status == "gap":
            col.gap(str(res)[:100])
        elif status == "ok" and not cur.get("viol"):
            m = ex.model()
            vals = {str(d): m[d].as_long() for d in m.decls() if str(d) in ("col", "n0", "n1", "n2", "n3")}
            col.add_witness(dict(limit="rope", ctx=cx, col=vals.get("col", 1), ns=[vals.get(f"n{i}", 0) for i in range(4)]),
                            dict(ok=True))
    ex.explore(body, on_path=on_path, max_time=60, path_alarm=15.0)
    res = col.finish()
    res["stats"] = ex.stats()
    return res


def replay_rope(case):
    """the same comment as real text through the real lexer + pipeline"""
    cx, c, ns = case["ctx"], case["col"], case["ns"]
    interior = int(cx[5:]) if cx.startswith("block") else 0
    pre = " " * (c - 1) if c > 1 else ""
    # a comment at column > 1 sits after blanks (harmless for the width rules)
    if cx == "line":
        lines = [pre + "//" + "x" * ns[0]]
    elif interior == 0:
        lines = [pre + "/*" + "x" * ns[0] + "*/"]
    else:
        lines = [pre + "/*" + "x" * ns[0]] + ["y" * ns[1 + k] for k in range(interior)] + ["z" * ns[3] + "*/"]
    text = "\n\n\n\n" + "\n".join(lines) + "\n"
    o = P.run_text("t.c", text)
    reported = {e[2] for e in o.errors if e[0] == "LINE_TOO_LONG"}
    viol = []
    for k, l in enumerate(lines):
        ln = 5 + k
        w = len(l)
        kind = "first" if k == 0 else ("last" if k == len(lines) - 1 else "interior")
        if (ln in reported) != (w > 80):
            viol.append([f"C03:rope:{cx}:{kind}:{'spurious' if ln in reported else 'missing'}", f"width {w}"])
    return dict(digest=dict(ok=not viol), violations=viol)


def run_chunk(chunk, ctx):
    limit, cx = chunk["limit"], chunk["ctx"]
    if limit == "rope":
        return run_rope(chunk, ctx)
    L = LIMITS[limit]
    ex = Explorer()
    core.set_run(ex)
    col = Collector(HNAME, seed=ctx["seed"], sample_rate=ctx.get("sample_rate", 0.3))
    cur = {}

    def body():
        cur.clear()
        n = L - 3 + choose("n", 10)
        b_state = {}
        # builder variables must be the same objects on every re-execution of the same n
        name, items, expect, _t, _cons = cache_build(limit, cx, n, ex)
        o = P.run_text(name, SymStr(items))
        viol = judge(limit, cx, n, o, expect)
        text = None
        for fp, what in viol:
            text = text or SymStr(items).concretize(ex.model())
            col.violation(fp, what, dict(limit=limit, ctx=cx, n=n, name=name, text=text, expect=expect))
            cur["viol"] = True
        return dict(n=n, items=items, name=name, expect=expect)

    built = {}

    def cache_build(limit_, cx_, n, ex_):
        key = n
        if key not in built:
            n0 = len(ex_.solver.assertions())
            r = build(limit_, cx_, n, ex_)
            built[key] = tuple(r) + (list(ex_.solver.assertions())[n0:],)
        else:
            # re-assert the domain constraints of this n's filler variables (they were added under a push)
            ex_.solver.add(*built[key][4])
        return built[key]

    def on_path(res, status):
        if status == "gap":
            col.gap(str(res)[:100])
        elif status == "timeout":
            col.count("slow_paths_not_analysed")
        elif status == "ok" and not cur.get("viol") and col.want_witness():
            text = SymStr(res["items"]).concretize(ex.model())
            col.add_witness(dict(limit=limit, ctx=cx, n=res["n"], name=res["name"], text=text, expect=res["expect"]), dict(ok=True))

    ex.explore(body, on_path=on_path, max_time=max(1.0, min(ctx.get("chunk_time", 100), ctx["deadline"] - time.time())), path_alarm=15.0)
    res = col.finish()
    res["stats"] = ex.stats()
    return res


def replay(case):
    if case["limit"] == "rope":
        return replay_rope(case)
    o = P.run_text(case["name"], case["text"])
    expect = [tuple(e) for e in case["expect"]]
    viol = judge(case["limit"], case["ctx"], case["n"], o, expect)
    return dict(digest=dict(ok=not viol), violations=[list(v) for v in viol])
