"""C16: options change the presentation, never the findings.
(a) two/three pipeline runs per path class on the same symbolic text: debug 0 vs solver-chosen 1..2,
    and -R <word> (symbolic word != CheckDefine); -R CheckDefine may only remove #define-VALUE diagnostics.
(c) the real main() twice per path class: content passed with --cfile/--hfile (+ --filename) versus the
    same (symbolic) content read from a file of that name, under a solver-chosen option subset."""
import io
import os
import re
import sys
import time
import contextlib
import z3
from symx import core
from symx.core import Var, SymStr, SymInt, Explorer, declare, choose
from symx.poly import conc
from symx.run import Collector
from harness import pipeline as P, edits as E, families as F

HNAME = "harness.options"
VALUE_CODES = ("PREPROC_CONSTANT", "TOO_MANY_VALS")
DEFINE_PROGS = {
    "def1.c": "#define {M} {V}\n\nint\tmain(void)\n{\n\treturn (0);\n}\n",
    "def2.c": "#define {m}(x) {V}\n#define {M} {V} {V}\n\nint\tmain(void)\n{\n\treturn (0);\n}\n",
    "def3.h": "#ifndef DEF3_H\n# define DEF3_H\n\n# define {m} ({V} + {V})\n# define {M}\n\n#endif\n",
}


def chunks(tier):
    """small, always-completed parts first (the pool takes chunks in this order), budget-limited edit sweep last"""
    out = []
    for name in DEFINE_PROGS:
        # the macro values: numbers only / identifiers only (always analysed to a verdict) / any two characters (thorough)
        for vclass in (("num", "ident") if tier == "quick" else ("num", "ident", "any")):
            out.append(dict(part="define", prog=name, vclass=vclass))
    # the -R value as the command line delivers it (whatever shape argparse gives it): an unknown word of 1..14 letters
    for n in ((1, 10, 11, 12, 13) if tier == "quick" else range(1, 15)):
        out.append(dict(part="cliR", n=n))
    for kind in ("cfile", "hfile"):
        for n in ((0, 1, 2) if tier == "quick" else (0, 1, 2, 3)):
            out.append(dict(part="cli", kind=kind, n=n))
    for fc in sorted(FMT_FILES):
        out.append(dict(part="cliF", fclass=fc))
    progs = ["fn.c", "gl.c"] if tier == "quick" else list(E.BASE_SRC)
    for name in progs:
        nb = len(E.boundaries(name))
        for b in range(0, nb, 4 if tier == "quick" else 1):
            out.append(dict(part="edit", prog=name, b=b))
    return out


def key(o):
    return (o.kind, o.detail if o.kind != "ok" else "", sorted([tuple(conc(list(e))) for e in o.errors], key=repr))


def compare(text, name, ex, report):
    """the runs of part (a) on one symbolic text"""
    o0 = P.run_text(name, text, debug=0)
    D = 1 + choose("debug", 2)
    oD = P.run_text(name, text, debug=D)
    L = (3, 11)[choose("wlen", 2)]
    wv = [Var(f"w{L}_{i}", map(ord, F.LOW + F.UP)) for i in range(L)]
    for v in wv:
        ex.solver.add(v.domain_constraint())
    if L == 11:
        ex.solver.add(z3.Or([v.z != ord(c) for v, c in zip(wv, "CheckDefine")]))
    oW = P.run_text(name, text, debug=0, added_value=[SymStr(wv)])
    oC = P.run_text(name, text, debug=0, added_value=["CheckDefine"])
    k0, kD, kW, kC = key(o0), key(oD), key(oW), key(oC)
    res = dict(k0=list(k0), D=D)
    if k0[0] == "ok" and kD[0] == "ok" and k0[2] != kD[2]:
        only0 = sorted({e[0] for e in k0[2] if e not in kD[2]})
        onlyD = sorted({e[0] for e in kD[2] if e not in k0[2]})
        report(f"C16:debug:{'+'.join(only0) or '-'}|{'+'.join(onlyD) or '-'}", f"-d/-dd changes the diagnostics (only without: {only0}, only with: {onlyD})", D=D)
    if k0 != kW:
        report("C16:R-word:differs", "an unknown -R value changes the outcome", W=L)
    if k0[0] == "ok" and kC[0] == "ok":
        gone = [e for e in k0[2] if e not in kC[2]]
        new = [e for e in kC[2] if e not in k0[2]]
        bad = sorted({e[0] for e in gone if e[0] not in VALUE_CODES} | {"+" + e[0] for e in new})
        if bad:
            report(f"C16:CheckDefine:{'+'.join(bad)}", f"-R CheckDefine removes/adds diagnostics other than the #define value ones: {bad}", CD=True)
    elif k0[0] != kC[0]:
        report(f"C16:CheckDefine:verdict:{k0[0]}|{kC[0]}", "-R CheckDefine changes whether the file is analysed to a verdict", CD=True)
    return res


def run_chunk(chunk, ctx):
    part = chunk["part"]
    if part == "cli":
        return run_cli(chunk, ctx)
    if part == "cliR":
        return run_cli_r(chunk, ctx)
    if part == "cliF":
        return run_cli_fmt(chunk, ctx)
    ex = Explorer()
    core.set_run(ex)
    col = Collector(HNAME, seed=ctx["seed"], sample_rate=ctx.get("sample_rate", 0.1))
    cur = {}
    if part == "define":
        name = chunk["prog"]
        tmpl = DEFINE_PROGS[name]
        hdr = "".join(l.default_text() + "\n" for l in F.header_lines(name)) + "\n"
        items = list(hdr)
        k = 0
        for tok in re.split(r"(\{[A-Za-z]\})", tmpl):
            if tok in ("{M}", "{m}"):
                n = 3
                for i in range(n):
                    k += 1
                    chars = (F.UP if tok == "{M}" else F.LOW) if i == 0 else (F.UPD + F.LOW)
                    v = Var(f"d{k}", map(ord, chars.replace("l", "").replace("u", "").replace("L", "").replace("U", "") if i == 0 else chars))
                    ex.solver.add(v.domain_constraint())
                    items.append(v)
            elif tok == "{V}":
                vclass = chunk.get("vclass", "any")
                k += 1
                v = Var(f"d{k}", map(ord, {"num": "123456789", "ident": "ABCxyz"}.get(vclass, "123456789ABCxyz")))
                ex.solver.add(v.domain_constraint())
                items.append(v)
                k += 1
                v2 = Var(f"d{k}", map(ord, {"num": "0123456789", "ident": "0123456789ABCxyz"}.get(vclass, "0123456789ABCxyz")))
                ex.solver.add(v2.domain_constraint())
                items.append(v2)
            else:
                items += list(tok)
    else:
        name, b = chunk["prog"], chunk["b"]
        text = E.base_text(name)
        off = E.boundaries(name)[b]
        vsets = {}

    def body():
        cur.clear()
        if part == "define":
            its = items
        else:
            L = 1 + choose("L", 3)
            if L not in vsets:
                vs = [Var(f"x{L}_{i}", range(128)) for i in range(L)]
                vsets[L] = (vs, [v.domain_constraint() for v in vs] + [E.lexeme_constraint(vs)])
            vs, cons = vsets[L]
            ex.solver.add(*cons)
            its = list(text[:off]) + vs + list(text[off:])
        cur["items"] = its

        def report(fp, what, **kw):
            col.violation(fp, what, dict(part="pipeline", name=name, text=SymStr(its).concretize(ex.model()), **kw))
            cur["viol"] = True
        return compare(SymStr(its), name, ex, report)

    def on_path(res, status):
        if status == "gap":
            col.gap(str(res)[:100])
        elif status == "timeout":
            col.count("slow_paths_not_analysed")
        elif status == "ok" and not cur.get("viol") and col.want_witness():
            col.add_witness(dict(part="pipeline", name=name, text=SymStr(cur["items"]).concretize(ex.model()), D=res["D"]), dict(ok=True))
    ex.explore(body, on_path=on_path, max_time=max(1.0, min(ctx.get("chunk_time", 60), ctx["deadline"] - time.time())), path_alarm=30.0, max_paths=ctx.get("max_paths"))
    res = col.finish()
    res["stats"] = ex.stats()
    return res


# ---------------------------------------------------------------------------------------------- (c) CLI
LINE = re.compile(r"^(?:(\S+): (OK!|Error!)|(Error|Notice): (\S+)\s+\(line:\s*(\d+), col:\s*(\d+)\))")


def parse_cli(out):
    got = []
    for l in out.splitlines():
        l = re.sub(r"\x1b\[[0-9;]*m", "", l)
        m = LINE.match(l)
        if m:
            got.append(tuple(x for x in m.groups() if x is not None))
    return got


OPTS = [[], ["--no-colors"], ["-o"], ["-o", "--no-colors"]]


def run_cli(chunk, ctx):
    import norminette.__main__ as M
    import norminette.file as NF
    import argparse
    kind, n = chunk["kind"], chunk["n"]
    ext = ".c" if kind == "cfile" else ".h"
    fname = "n" + ext
    ex = Explorer()
    core.set_run(ex)
    col = Collector(HNAME, seed=ctx["seed"], sample_rate=ctx.get("sample_rate", 0.1) / 4, max_witness=40)
    chars = [declare(Var(f"s{i}", range(1, 128))) for i in range(n)]
    cur = {}
    import tempfile
    import shutil
    tmp = tempfile.mkdtemp(prefix="nverif-")
    open(os.path.join(tmp, fname), "w").write("placeholder")
    os.mkdir(os.path.join(tmp, "empty"))
    real_parse = argparse.ArgumentParser.parse_args
    real_open = open

    def run_main(argv, content, inline):
        s = SymStr.mk(chars) if chars else ""
        out = io.StringIO()
        code, exc = None, None

        def parse(self, *a, **k):
            ns = real_parse(self, *a, **k)
            if inline:
                setattr(ns, kind, s)
            return ns

        class FakeFile:
            def __enter__(self):
                return self

            def __exit__(self, *a):
                return False

            def read(self):
                return s

        def fake_open(path, *a, **k):
            if str(path).endswith(fname):
                return FakeFile()
            return real_open(path, *a, **k)
        old = sys.argv, os.getcwd()
        sys.argv = ["norminette"] + argv
        argparse.ArgumentParser.parse_args = parse
        if not inline:
            NF.open = fake_open      # (inline content must not be read from anywhere: no file is served in that mode)
        os.chdir(os.path.join(tmp, "empty") if inline else tmp)     # inline content must not depend on what the cwd holds
        try:
            with contextlib.redirect_stdout(out), contextlib.redirect_stderr(io.StringIO()):
                try:
                    M.main()
                except SystemExit as e:
                    code = e.code
                except core.EngineGap:
                    raise
                except Exception as e:
                    exc = type(e).__name__
        finally:
            sys.argv = old[0]
            os.chdir(old[1])
            argparse.ArgumentParser.parse_args = real_parse
            if "open" in vars(NF):
                del NF.open
        return parse_cli(out.getvalue()), code, exc

    def body():
        cur.clear()
        oi = choose("opts", len(OPTS))
        opts = OPTS[oi]
        a = run_main(opts + ["--" + kind, "PLACEHOLDER", "--filename", fname], None, True)
        b = run_main(opts + [fname], None, False)
        base = run_main(["--" + kind, "PLACEHOLDER", "--filename", fname], None, True) if oi else a
        res = dict(opts=opts)
        text = SymStr(chars).concretize(ex.model()) if chars else ""
        if a != b:
            col.violation(f"C16:inline-vs-file:{'empty' if n == 0 else 'nonempty'}:{_diff(a, b)}",
                          f"--{kind} content and the same content in a file give different results",
                          dict(part="cli", kind=kind, text=text, opts=opts))
            cur["viol"] = True
        if a != base:
            col.violation(f"C16:cli-options:{'+'.join(opts)}", f"options {opts} change the findings", dict(part="cli", kind=kind, text=text, opts=opts))
            cur["viol"] = True
        cur["text"] = text
        return res

    def on_path(res, status):
        if status == "gap":
            col.gap(str(res)[:100])
        elif status == "timeout":
            col.count("slow_paths_not_analysed")
        elif status == "ok" and not cur.get("viol") and col.want_witness():
            col.add_witness(dict(part="cli", kind=kind, text=cur["text"], opts=res["opts"]), dict(ok=True))
    try:
        ex.explore(body, on_path=on_path, max_time=max(1.0, min(ctx.get("chunk_time", 90), ctx["deadline"] - time.time())), path_alarm=30.0)
    finally:
        shutil.rmtree(tmp, ignore_errors=True)
    res = col.finish(limit=60)
    res["stats"] = ex.stats()
    return res


FMT_FILES = {
    "clean": "int\tmain(void)\n{\n\treturn (0);\n}\n",
    "notice_only": "int\tg_count;\n\nint\tmain(void)\n{\n\treturn (g_count);\n}\n",
    "errors": "int main()\n{\n  return 0;\n}\n",
    "notice_and_error": "int\tg_count;\n\nint\tmain(void)\n{\n\treturn g_count;\n}\n",
}
FMT_OPTS = [o + f for o in ([], ["--no-colors"], ["-o"], ["-d"], ["-o", "--no-colors"], ["-R", "Whatever"])
            for f in ([], ["-f", "humanized"], ["-f", "json"])]


def parse_any(out):
    """(verdict, sorted diagnostics) per file from humanized or JSON output"""
    import json as _json
    files = []
    for l in out.splitlines():
        l = l.strip()
        if l.startswith("{") and '"files"' in l:
            try:
                data = _json.loads(l)
            except ValueError:
                return [("unparsable-json",)]
            for f in data["files"]:
                files.append((os.path.basename(f["path"]), "OK!" if f["status"] == "OK" else "Error!",
                              sorted((e["level"], e["name"], e["highlights"][0]["lineno"], e["highlights"][0]["column"]) for e in f["errors"])))
            return files
    got = parse_cli(out)
    cur = None
    for g in got:
        if len(g) == 2:
            cur = (os.path.basename(g[0]), g[1], [])
            files.append(cur)
        elif cur is not None:
            cur[2].append((g[0], g[1], int(g[2]), int(g[3])))
    return [(a, b, sorted(c)) for a, b, c in files]


def fmt_run_native(fclass, opts):
    import tempfile
    import shutil
    import subprocess
    tmp = tempfile.mkdtemp(prefix="nverif-")
    try:
        fname = "fmt.c"
        open(os.path.join(tmp, fname), "w").write("".join(l.default_text() + "\n" for l in F.header_lines(fname)) + "\n" + FMT_FILES[fclass])
        r = subprocess.run(["/venv/bin/python", "-m", "norminette"] + opts + [fname], cwd=tmp, capture_output=True, text=True, timeout=60,
                           env=dict(os.environ, PYTHONPATH=__import__("symx").REPO, PYTHONDONTWRITEBYTECODE="1"))
        return parse_any(r.stdout), r.returncode
    finally:
        shutil.rmtree(tmp, ignore_errors=True)


def run_cli_fmt(chunk, ctx):
    """real main() on a file of each verdict class under a solver-chosen option set (colours, -o, -d, -R word, -f humanized |
    json): verdict, diagnostics and exit status equal those of the plain run"""
    import norminette.__main__ as M
    import tempfile
    import shutil
    fclass = chunk["fclass"]
    ex = Explorer()
    core.set_run(ex)
    col = Collector(HNAME, seed=ctx["seed"], sample_rate=1.0, max_witness=len(FMT_OPTS))
    tmp = tempfile.mkdtemp(prefix="nverif-")
    fname = "fmt.c"
    open(os.path.join(tmp, fname), "w").write("".join(l.default_text() + "\n" for l in F.header_lines(fname)) + "\n" + FMT_FILES[fclass])
    cur = {}

    def run_main(opts):
        out = io.StringIO()
        code, exc = None, None
        old = sys.argv, os.getcwd()
        sys.argv = ["norminette"] + opts + [fname]
        os.chdir(tmp)
        try:
            with contextlib.redirect_stdout(out), contextlib.redirect_stderr(io.StringIO()):
                try:
                    M.main()
                except SystemExit as e:
                    code = e.code
                except core.EngineGap:
                    raise
                except Exception as e:
                    exc = type(e).__name__
        finally:
            sys.argv = old[0]
            os.chdir(old[1])
        return parse_any(out.getvalue()), (0 if code in (0, None) else 1), exc

    def body():
        cur.clear()
        k = choose("opts", len(FMT_OPTS))
        base = run_main([])
        a = run_main(FMT_OPTS[k])
        cur["case"] = dict(part="cliF", fclass=fclass, opts=FMT_OPTS[k])
        if a != base:
            what = "exception" if a[2] or base[2] else ("exit-status" if a[1] != base[1] else ("verdict" if [f[:2] for f in a[0]] != [f[:2] for f in base[0]] else "diagnostics"))
            col.violation(f"C16:cli-format-options:{what}:{fclass}", f"options {FMT_OPTS[k]} change the {what} of a {fclass} file", cur["case"])
            cur["viol"] = True
        return dict(ok=True)

    def on_path(res, status):
        if status == "gap":
            col.gap(str(res)[:100])
        elif status == "ok" and not cur.get("viol") and col.want_witness():
            col.add_witness(cur["case"], dict(ok=True))
    try:
        ex.explore(body, on_path=on_path, max_time=max(1.0, min(ctx.get("chunk_time", 90), ctx["deadline"] - time.time())), path_alarm=30.0)
    finally:
        shutil.rmtree(tmp, ignore_errors=True)
    res = col.finish(limit=60)
    res["stats"] = ex.stats()
    return res


RTEXT = "#define foo(x) 12\n#define BAR 12 34\n#define baz 5\n\nint\tmain(void)\n{\n\treturn (0);\n}\n"


def run_cli_r(chunk, ctx):
    """real main() on a file with #define diagnostics: `-R <word>` with every letter of the word symbolic (delivered in
    the shape the real argparse configuration produces) versus no -R at all"""
    import norminette.__main__ as M
    import argparse
    import tempfile
    import shutil
    n = chunk["n"]
    ex = Explorer()
    core.set_run(ex)
    col = Collector(HNAME, seed=ctx["seed"], sample_rate=1.0, max_witness=10)
    wv = [declare(Var(f"r{i}", map(ord, F.LOW + F.UP + "0123456789_"))) for i in range(n)]
    if n == 11:
        ex.solver.add(z3.Or([v.z != ord(c) for v, c in zip(wv, "CheckDefine")]))
    tmp = tempfile.mkdtemp(prefix="nverif-")
    fname = "rdef.c"
    text = "".join(l.default_text() + "\n" for l in F.header_lines(fname)) + "\n" + RTEXT
    open(os.path.join(tmp, fname), "w").write(text)
    real_parse = argparse.ArgumentParser.parse_args
    cur = {}

    def run_main(argv, word):
        out = io.StringIO()
        code, exc = None, None

        def parse(self, *a, **k):
            ns = real_parse(self, *a, **k)
            if word is not None:
                r = getattr(ns, "R", None)
                if isinstance(r, list):
                    ns.R = [word if x == "PLACEHOLDER" else x for x in r]
                elif r == "PLACEHOLDER":
                    ns.R = word
            return ns
        old = sys.argv, os.getcwd()
        sys.argv = ["norminette", "--no-colors"] + argv
        argparse.ArgumentParser.parse_args = parse
        os.chdir(tmp)
        try:
            with contextlib.redirect_stdout(out), contextlib.redirect_stderr(io.StringIO()):
                try:
                    M.main()
                except SystemExit as e:
                    code = e.code
                except core.EngineGap:
                    raise
                except Exception as e:
                    exc = type(e).__name__
        finally:
            sys.argv = old[0]
            os.chdir(old[1])
            argparse.ArgumentParser.parse_args = real_parse
        return parse_cli(out.getvalue()), code, exc

    def body():
        cur.clear()
        w = SymStr(list(wv))
        base = run_main([fname], None)
        a = run_main(["-R", "PLACEHOLDER", fname], w)
        cur["word"] = w.concretize(ex.model())
        if a != base:
            col.violation(f"C16:cli-R-word:{_diff(a, base)}", "an unknown -R word changes the findings of a run",
                          dict(part="cliR", word=cur["word"]))
            cur["viol"] = True
        return dict(ok=True)

    def on_path(res, status):
        if status == "gap":
            col.gap(str(res)[:100])
        elif status == "timeout":
            col.count("slow_paths_not_analysed")
        elif status == "ok" and not cur.get("viol") and col.want_witness():
            col.add_witness(dict(part="cliR", word=cur["word"]), dict(ok=True))
    try:
        ex.explore(body, on_path=on_path, max_time=max(1.0, min(ctx.get("chunk_time", 90), ctx["deadline"] - time.time())), path_alarm=30.0)
    finally:
        shutil.rmtree(tmp, ignore_errors=True)
    res = col.finish(limit=60)
    res["stats"] = ex.stats()
    return res


def _diff(a, b):
    if a[2] or b[2]:
        return f"exception:{a[2]}|{b[2]}"
    if (a[1] in (0, None)) != (b[1] in (0, None)):
        return "exit-status"
    va = [x for x in a[0] if len(x) == 2]
    vb = [x for x in b[0] if len(x) == 2]
    if [v[1] for v in va] != [v[1] for v in vb] or len(va) != len(vb):
        return "verdict"
    return "diagnostics"


def native_cli(argv, cwd):
    import subprocess
    r = subprocess.run(["/venv/bin/python", "-m", "norminette"] + argv, cwd=cwd, capture_output=True, text=True, timeout=60,
                       env=dict(os.environ, PYTHONPATH=__import__("symx").REPO, PYTHONDONTWRITEBYTECODE="1"))
    exc = None
    if "Traceback (most recent call last)" in r.stderr:
        exc = r.stderr.strip().splitlines()[-1].split(":")[0]
    return parse_cli(r.stdout), r.returncode, exc


def replay(case):
    viol = []
    if case["part"] == "pipeline":
        name, text = case["name"], case["text"]
        o0 = P.run_text(name, text, debug=0)
        k0 = key(o0)
        if "D" in case:
            kD = key(P.run_text(name, text, debug=case["D"]))
            if k0[0] == "ok" and kD[0] == "ok" and k0[2] != kD[2]:
                only0 = sorted({e[0] for e in k0[2] if e not in kD[2]})
                onlyD = sorted({e[0] for e in kD[2] if e not in k0[2]})
                viol.append([f"C16:debug:{'+'.join(only0) or '-'}|{'+'.join(onlyD) or '-'}", "debug changes diagnostics"])
        if "W" in case:
            kW = key(P.run_text(name, text, debug=0, added_value=["Xy" + "z" * (case["W"] - 2)]))
            if k0 != kW:
                viol.append(["C16:R-word:differs", "unknown -R value changes the outcome"])
        if case.get("CD"):
            kC = key(P.run_text(name, text, debug=0, added_value=["CheckDefine"]))
            if k0[0] == "ok" and kC[0] == "ok":
                gone = [e for e in k0[2] if e not in kC[2]]
                new = [e for e in kC[2] if e not in k0[2]]
                bad = sorted({e[0] for e in gone if e[0] not in VALUE_CODES} | {"+" + e[0] for e in new})
                if bad:
                    viol.append([f"C16:CheckDefine:{'+'.join(bad)}", "CheckDefine removes more"])
            elif k0[0] != kC[0]:
                viol.append([f"C16:CheckDefine:verdict:{k0[0]}|{kC[0]}", "verdict"])
        return dict(digest=dict(ok=not viol), violations=viol)
    import tempfile
    import shutil
    if case["part"] == "cliF":
        base = fmt_run_native(case["fclass"], [])
        a = fmt_run_native(case["fclass"], case["opts"])
        a, base = (a[0], 0 if a[1] == 0 else 1), (base[0], 0 if base[1] == 0 else 1)
        if a != base:
            what = "exit-status" if a[1] != base[1] else ("verdict" if [f[:2] for f in a[0]] != [f[:2] for f in base[0]] else "diagnostics")
            viol.append([f"C16:cli-format-options:{what}:{case['fclass']}", "options change the result"])
        return dict(digest=dict(ok=not viol), violations=viol)
    if case["part"] == "cliR":
        tmp = tempfile.mkdtemp(prefix="nverif-")
        try:
            fname = "rdef.c"
            open(os.path.join(tmp, fname), "w").write("".join(l.default_text() + "\n" for l in F.header_lines(fname)) + "\n" + RTEXT)
            base = native_cli(["--no-colors", fname], tmp)
            a = native_cli(["--no-colors", "-R", case["word"], fname], tmp)
            if a != base:
                viol.append([f"C16:cli-R-word:{_diff(a, base)}", "an unknown -R word changes the findings"])
        finally:
            shutil.rmtree(tmp, ignore_errors=True)
        return dict(digest=dict(ok=not viol), violations=viol)
    kind, text, opts = case["kind"], case["text"], case["opts"]
    fname = "n" + (".c" if kind == "cfile" else ".h")
    tmp = tempfile.mkdtemp(prefix="nverif-")
    try:
        open(os.path.join(tmp, fname), "w").write(text)
        os.mkdir(os.path.join(tmp, "empty"))
        a = native_cli(opts + ["--" + kind + "=" + text, "--filename", fname], os.path.join(tmp, "empty"))
        b = native_cli(opts + [fname], tmp)
        base = native_cli(["--" + kind + "=" + text, "--filename", fname], os.path.join(tmp, "empty"))
        if a != b:
            viol.append([f"C16:inline-vs-file:{'empty' if not text else 'nonempty'}:{_diff(a, b)}", "inline vs file"])
        if a != base:
            viol.append([f"C16:cli-options:{'+'.join(opts)}", "options change findings"])
    finally:
        shutil.rmtree(tmp, ignore_errors=True)
    return dict(digest=dict(ok=not viol), violations=viol)
