"""Shared pipeline runner: text -> real Lexer -> real Context + Registry.run (instrumented in an
exploration, native in a replay).  Also the C07 monitor on Context.pop_tokens (test-side wrapper)."""
import io
import contextlib

_registry = None


def registry():
    global _registry
    if _registry is None:
        from norminette.registry import Registry
        _registry = Registry()
    return _registry


def site_of(e):
    from symx.native import site_of as s
    return s(e.__traceback__)


class Outcome:
    __slots__ = ("kind", "errors", "detail", "site", "file", "segments", "unrecognized", "ntokens", "tokens", "seginfo")

    def __init__(self):
        self.kind = None          # "ok" | "fatal" | "exc"
        self.errors = []          # [(name, level, line, col)] in insertion order
        self.detail = ""
        self.site = ""
        self.file = None
        self.segments = []        # (jump, tokens_before, len(history))
        self.seginfo = []         # (first token column, last token type, scope class, scope lvl, rule, first token line)
        self.unrecognized = 0
        self.ntokens = 0
        self.tokens = None

    def key(self):
        return (self.kind, tuple(self.errors), self.detail if self.kind != "ok" else "")


def errors_of(f):
    out = []
    for e in f.errors._inner:
        if e.highlights:
            h = e.highlights[0]
            out.append((e.name, e.level, h.lineno, h.column))
        else:
            out.append((e.name, e.level, None, None))
    return out


def run_text(name, source, debug=0, added_value=None, monitor=False, keep_tokens=False):
    from norminette.file import File
    from norminette.lexer import Lexer
    from norminette.context import Context
    from norminette.exceptions import CParsingError
    o = Outcome()
    f = File(name, source)
    o.file = f
    buf = io.StringIO()
    try:
        with contextlib.redirect_stdout(buf):
            toks = list(Lexer(f))
            o.ntokens = len(toks)
            if keep_tokens:
                o.tokens = list(toks)
            ctx = Context(f, toks, debug, added_value)
            if monitor:
                orig = ctx.pop_tokens
                state = {"rule": None}

                def pop_tokens(n, _o=o, _ctx=ctx, _orig=orig):
                    hist = _ctx.history
                    toks = _ctx.tokens
                    _o.segments.append((n, len(toks), len(hist)))
                    try:
                        k = n if isinstance(n, int) else 0
                        first = toks[0] if toks else None
                        last = toks[k - 1] if 0 < k <= len(toks) else None
                        _o.seginfo.append((first.pos[1] if first else None, last.type if last else None,
                                           type(_ctx.scope).__name__, _ctx.scope.lvl, str(hist[-1]) if hist else None,
                                           first.pos[0] if first else None))
                    except Exception:
                        _o.seginfo.append((None, None, None, None, None, None))
                    return _orig(n)
                ctx.pop_tokens = pop_tokens
            registry().run(ctx)
        o.kind = "ok"
    except CParsingError as e:
        o.kind, o.detail = "fatal", "CParsingError"
    except Exception as e:
        o.kind, o.detail, o.site = "exc", type(e).__name__, site_of(e)
    o.errors = errors_of(f)
    return o


def wellformed_violations(f, source):
    """C08(c): every emitted diagnostic has a catalogue code with the catalogue text, a level Error/Notice,
    at least one highlight, 1 <= line <= number of lines of the source, column >= 1"""
    from norminette.norm_error import errors as CAT
    from symx.poly import feasible, lt, gt, c_or, conc
    out = []
    nl = 0
    last = None
    for ch in source:
        last = ch
        if ch == "\n":
            nl += 1
    nlines = nl + (0 if (last is None or last == "\n") else 1)
    nlines = max(nlines, 1)
    for e in f.errors._inner:
        name = e.name
        if not isinstance(name, str):
            name = conc(name)
        if name not in CAT:
            out.append((f"C08:catalogue:unknown-code:{name}", f"diagnostic code {name!r} is not in the published catalogue"))
        elif not (e.text == CAT[name]):
            out.append((f"C08:catalogue:text:{name}", f"text of {name} differs from the catalogue text"))
        if e.level not in ("Error", "Notice"):
            out.append((f"C08:level:{name}", f"{name} has level {e.level!r}"))
        if not e.highlights:
            out.append((f"C08:no-position:{name}", f"{name} carries no position"))
            continue
        # every highlight (the JSON output lists them all), not only the printed first one
        for hi, h in enumerate(e.highlights):
            cond = c_or(lt(h.lineno, 1), gt(h.lineno, nlines), lt(h.column, 1))
            if feasible(cond):
                out.append((f"C08:position-outside-file:{name}" + ("" if hi == 0 else ":secondary-highlight"),
                            f"{name} carries a position outside the file (highlight {hi}: line {conc(h.lineno)}, column {conc(h.column)}, file has {nlines} lines)"))
                break
    # the diagnostics of a REAL run, in the order the formatters will list them (Errors.__iter__), ascend by (line, column)
    from symx.poly import c_and, eq
    prev = None
    for e in f.errors:
        if not e.highlights:
            continue
        h = e.highlights[0]
        if prev is not None:
            cond = c_or(gt(prev[0], h.lineno), c_and(eq(prev[0], h.lineno), gt(prev[1], h.column)))
            if feasible(cond):
                nm = e.name if isinstance(e.name, str) else conc(e.name)
                out.append((f"C08:order:real-run:{prev[2]}>{nm}", f"diagnostics of a real run are not listed in ascending (line, column) order: {prev[2]} before {nm}"))
                break
        prev = (h.lineno, h.column, e.name if isinstance(e.name, str) else conc(e.name))
    return out
