"""Shared pipeline runner: text -> real Lexer -> real Context + Registry.run (instrumented in an
exploration, native in a replay).  Also the C07 monitor on Context.pop_tokens (test-side wrapper)."""
import io
import contextlib

_registry = None


def registry():
    global _registry
    if _registry is None:
        from norminette.registry import Registry
        _registry = Registry()
    return _registry


def site_of(e):
    from symx.native import site_of as s
    return s(e.__traceback__)


class Outcome:
    __slots__ = ("kind", "errors", "detail", "site", "file", "segments", "unrecognized", "ntokens", "tokens")

    def __init__(self):
        self.kind = None          # "ok" | "fatal" | "exc"
        self.errors = []          # [(name, level, line, col)] in insertion order
        self.detail = ""
        self.site = ""
        self.file = None
        self.segments = []        # (rule name | None, jump, tokens_before)
        self.unrecognized = 0
        self.ntokens = 0
        self.tokens = None

    def key(self):
        return (self.kind, tuple(self.errors), self.detail if self.kind != "ok" else "")


def errors_of(f):
    out = []
    for e in f.errors._inner:
        if e.highlights:
            h = e.highlights[0]
            out.append((e.name, e.level, h.lineno, h.column))
        else:
            out.append((e.name, e.level, None, None))
    return out


def run_text(name, source, debug=0, added_value=None, monitor=False, keep_tokens=False):
    from norminette.file import File
    from norminette.lexer import Lexer
    from norminette.context import Context
    from norminette.exceptions import CParsingError
    o = Outcome()
    f = File(name, source)
    o.file = f
    buf = io.StringIO()
    try:
        with contextlib.redirect_stdout(buf):
            toks = list(Lexer(f))
            o.ntokens = len(toks)
            if keep_tokens:
                o.tokens = list(toks)
            ctx = Context(f, toks, debug, added_value)
            if monitor:
                orig = ctx.pop_tokens
                state = {"rule": None}

                def pop_tokens(n, _o=o, _ctx=ctx, _orig=orig):
                    hist = _ctx.history
                    _o.segments.append((n, len(_ctx.tokens), len(hist)))
                    return _orig(n)
                ctx.pop_tokens = pop_tokens
            registry().run(ctx)
        o.kind = "ok"
    except CParsingError as e:
        o.kind, o.detail = "fatal", "CParsingError"
    except Exception as e:
        o.kind, o.detail, o.site = "exc", type(e).__name__, site_of(e)
    o.errors = errors_of(f)
    return o
