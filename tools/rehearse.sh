#!/bin/sh
# tools/rehearse.sh <scale> <procs> <ids...>: thorough tier of the given checks with scaled budgets (a rehearsal: finds
# fingerprints the thorough tier meets on the unchanged tree before the full-budget run does); one summary line each
scale=$1; procs=$2; shift 2
cd "$(dirname "$0")/.."
for p in "$@"; do
  VERIF_BUDGET_SCALE=$scale VERIF_PROCS=$procs ./check $p --tier thorough > rehearse-$p.log 2>&1; code=$?
  echo "$p exit=$code viol=$(grep -c '^VIOLATION' rehearse-$p.log) inconcl=$(grep -c '^INCONCLUSIVE' rehearse-$p.log) :: $(tail -1 rehearse-$p.log | cut -c1-170)"
  grep "what:\|^INCONCLUSIVE" rehearse-$p.log | head -12 | cut -c1-260
done
