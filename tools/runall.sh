#!/bin/sh
# tools/runall.sh [tier]: every registered check once, one summary line each
tier=${1:-quick}
cd /verif
for p in C01 C02 C03 C04 C05 C06 C07 C08 C09 C10 C11 C12 C13 C14 C15 C16 C17 C18 C19; do
  ./check $p --tier $tier > /tmp/runall-$p.log 2>&1; code=$?
  echo "$p exit=$code viol=$(grep -c '^VIOLATION' /tmp/runall-$p.log) inconcl=$(grep -c '^INCONCLUSIVE' /tmp/runall-$p.log) :: $(tail -1 /tmp/runall-$p.log | cut -c1-150)"
done
