#!/bin/sh
# tools/seedtest.sh <seeded-id> <tier> <check ids...> : apply the seeded change to /repo, run the checks, undo it
id=$1; tier=$2; shift 2
cd /repo || exit 2
git diff --quiet || { echo "/repo is dirty"; exit 2; }
# a change whose original patch no longer applies (the area was touched by a later fix) is kept with a rebased equivalent
p=/verif/seeded/$id/patch_rebased.diff; [ -f "$p" ] || p=/verif/seeded/$id/patch.diff
git apply "$p" || exit 2
cd /verif
for c in "$@"; do
  ./check $c --tier $tier > /tmp/seed-$id-$c.log 2>&1; code=$?
  echo "== seeded $id / check $c [$tier]: exit $code  violations: $(grep -c '^VIOLATION' /tmp/seed-$id-$c.log)  inconclusive: $(grep -c '^INCONCLUSIVE' /tmp/seed-$id-$c.log)"
  grep "what:" /tmp/seed-$id-$c.log | head -3 | cut -c1-200
done
git -C /repo checkout -- .
find /verif/evidence/replays -type f -delete
