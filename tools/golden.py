import sys, os, glob, io, contextlib, time
sys.path.insert(0, "/verif")
from symx import hook; hook.install()
from harness import pipeline as P
bad=0; n=0; t=time.time()
for f in sorted(glob.glob("/repo/tests/rules/samples/*.[ch]")):
    out=f[:-2]+".out"
    if not os.path.exists(out): continue
    src=open(f).read()
    from norminette.file import File
    from norminette.lexer import Lexer
    from norminette.context import Context
    from norminette.registry import Registry
    from norminette.errors import HumanizedErrorsFormatter
    file=File(os.path.basename(f), src)
    buf=io.StringIO()
    try:
        with contextlib.redirect_stdout(buf):
            toks=list(Lexer(file)); ctx=Context(file,toks,debug=2); P.registry().run(ctx)
        got=buf.getvalue()+str(HumanizedErrorsFormatter(file, use_colors=False))
    except Exception as e:
        got="EXC "+type(e).__name__
    want=open(out).read()
    n+=1
    if got.strip()!=want.strip():
        bad+=1
        if bad<4: print("DIFF", f); 
print("samples", n, "mismatch", bad, round(time.time()-t,1))
