#!/usr/bin/env python3
"""tools/addknown.py PROP 'what text' < fingerprints  -- append finding entries (manual, reviewed step; never run by checks)"""
import sys, json
p='/verif/known_findings.json'
d=json.load(open(p))
have={(e['property'],e['fingerprint']) for e in d['entries']}
prop, what = sys.argv[1], sys.argv[2]
n=0
for line in sys.stdin:
    fp=line.strip()
    if fp and (prop,fp) not in have:
        d['entries'].append(dict(status="finding", property=prop, fingerprint=fp, what=what)); n+=1
json.dump(d,open(p,'w'),indent=1)
print("added",n)
