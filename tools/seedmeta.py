#!/usr/bin/env python3
"""tools/seedmeta.py: writes seeded/<id>/meta.json for the seeded changes of rounds 6+ from the table below
(rounds 1-5 have hand-written meta files).  'detected_by' is filled in after tools/seedtest.sh has been run."""
import json, os
V = os.path.dirname(os.path.dirname(os.path.abspath(__file__)))
BY = "independent sub-agent given only the property text (plus the list of changes already tried) and a scratch worktree"
CONF = "tools/verify_seed.sh {id} <worktree>: 514 tests pass with and without the patch; demo.py exits 1 with the patch, 0 without"
T = {
 # id: (round, change, needs, detected_by, ran)
}


def load():
    p = os.path.join(V, "tools", "seedtable.json")
    return json.load(open(p)) if os.path.exists(p) else {}


def main():
    for sid, e in load().items():
        d = os.path.join(V, "seeded", sid)
        if not os.path.isdir(d):
            continue
        meta = dict(property=sid[:3], round=e["round"], change=e["change"], needs_to_manifest=e["needs"], produced_by=BY,
                    confirmed=CONF.format(id=sid), detected_by=e["detected_by"], ran=e["ran"])
        json.dump(meta, open(os.path.join(d, "meta.json"), "w"), indent=1)
        print("wrote", sid)


if __name__ == "__main__":
    main()
