#!/bin/sh
# tools/verify_seed.sh <id>: in the scratch worktree /tmp/wt-<id>: tests+demo with the patch, then without, then re-apply
id=$1; wt=${2:-/tmp/wt-$id}
cd $wt || exit 2
git checkout -q -- . ; git apply /verif/seeded/$id/patch.diff || { echo "patch does not apply"; exit 2; }
tw=$(/venv/bin/python -m pytest -q -p no:cacheprovider 2>&1 | tail -1)
timeout 300 /venv/bin/python demo.py > /tmp/demo-$id-with.log 2>&1; dw=$?
git checkout -q -- .
to=$(/venv/bin/python -m pytest -q -p no:cacheprovider 2>&1 | tail -1)
timeout 300 /venv/bin/python demo.py > /tmp/demo-$id-without.log 2>&1; do_=$?
echo "$id: with patch: tests [$tw] demo exit $dw | without: tests [$to] demo exit $do_"
