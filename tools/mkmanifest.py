#!/usr/bin/env python3
"""Regenerates /verif/MANIFEST.json from the table below (run after adding/removing a check)."""
import json, os
V = os.path.dirname(os.path.dirname(os.path.abspath(__file__)))
BASE = "cd /repo && /venv/bin/python -m pytest -ra -q -p no:cacheprovider --timeout=900 --continue-on-collection-errors"
SYMX = ("bounded symbolic execution of the real norminette code (symx: import-hook AST instrumentation, z3-backed proxies, "
        "eager solver-decided branches, exhaustive DFS over path classes), assertion = z3 query per path class, "
        "counterexamples replayed on the unmodified package")
TRUST = ("z3 5.1; CPython; the symx proxies/rewriter (cross-validated on sampled witnesses of every explored class against the "
         "native implementation); the independent oracle named in the evidence; bounds as listed in the evidence file")
CHECKS = {
 "C01": dict(text="Every member of the conforming-program family (micro skeletons with every operator slot symbolic, generated .c/.h programs with symbolic identifier/constant/literal/operator slots, hand-written boundary / corner programs incl. constants of every C form, and a comment line of three forms at every boundary outside function bodies) is analysed by the real pipeline on symbolic text; on every path class: no Error-level diagnostic, no fatal error, no exception.",
             ref="4.1", tech="symbolic execution of the whole pipeline (Lexer + Registry.run + all rules) on program text with symbolic slots (symx + z3)"),
 "C12": dict(text="Two real lexer runs per path class on the same symbolic characters: the window lexed as is, and with a splice inserted at each token boundary / each punctuator respelled as trigraph or digraph; (type, value) sequences must be equal. Pipeline level: solver-chosen subsets of { } [ ] occurrences of conforming programs respelled; (code, line) multiset unchanged.",
             ref="4.12", tech="two-run symbolic execution of the lexer / pipeline on shared symbolic characters (symx + z3)"),
 "C13": dict(text="Regex level: the header pattern read from the current source is translated to a z3 regular expression; 'every stdheader instance (all field values, 80-column lines) is accepted' and 'each listed single mutation is rejected' are unsat queries of z3's sequence theory. State-machine level: the real CheckHeader through the real pipeline on instances and structural mutants (INVALID_HEADER count 0 / exactly 1).",
             ref="4.13", tech="z3 string/regex theory queries over symbolic header fields + symx exploration of the header state machine; sat answers replayed on the real tool"),
 "C14": dict(text="Header base name symbolic (every character); expected guard symbol from an independent z3-defined oracle; accepted shape and guard mutations g1..g8 through the real pipeline, under .h and .c names: the matching HEADER_PROT_* diagnostic is present / absent on every path class.",
             ref="4.14", tech="symbolic execution of the pipeline with a symbolic file name and guard symbol (symx + z3), independent upper/dot oracle"),
 "C16": dict(text="Per path class of symbolic program text: the real pipeline with debug 0, debug 1..2 (solver-chosen), -R <symbolic word> and -R CheckDefine; diagnostics must be equal (CheckDefine: only #define-value codes may disappear). CLI: the real main() on symbolic inline content (--cfile/--hfile + --filename) versus the same content read from a file, under solver-chosen option subsets.",
             ref="4.16", tech="multi-run symbolic execution of the pipeline and of main() on shared symbolic text / content (symx + z3)"),
 "C17": dict(text="Partition argument over comment/string/char contents: for each program the contents of up to 3-4 comment and literal slots are symbolic over the code-like alphabet; the real pipeline's outcome (verdict, codes, lines, columns) must be identical on every explored path class.",
             ref="4.17", tech="symbolic execution of the whole pipeline with symbolic comment/literal contents; relational claim by path partition (symx + z3)"),
 "C18": dict(text="Partition argument over identifier spellings: every user identifier of a program is symbolic (consistent at all occurrences, class and length kept, keywords excluded by solver constraints); the outcome must be identical on every path class.",
             ref="4.18", tech="symbolic execution of the whole pipeline with symbolic identifier spellings; relational claim by path partition (symx + z3)"),
 "C19": dict(text="Two pipeline runs per path class on shared symbolic slots (base file / file with the 42 header, an inserted comment line, an appended conforming function); the second run's diagnostics must be the first's shifted by the inserted lines, nothing added or removed.",
             ref="4.19", tech="two-run symbolic execution of the whole pipeline on shared symbolic slots (symx + z3)"),
 "C02": dict(text="Violation catalogue: each conforming program instance is changed by one operator (about 55 implemented, each tied to its diagnostic code) at a solver-chosen site, with symbolic identifier spellings; on every path class the real pipeline must report an accepted code on the edited line and the file must be Error.",
             ref="4.2", tech="symbolic execution of the whole pipeline on structurally edited programs with symbolic slots and solver-chosen edit site (symx + z3)"),
 "C03": dict(text="Boundary exactness (iff) of the five limits through the real pipeline: every measure in [L-3, L+6] in each listed context with symbolic filler text, plus comment tokens with unbounded solver-integer column and line widths injected into the real Registry.run (both directions of the iff are solver queries).",
             ref="4.3", tech="symbolic execution of the pipeline on generated boundary texts + state injection with symbolic-length strings (symx Rope, z3 LIA)"),
 "C04": dict(text="The real main() is executed symbolically with the per-file analysis replaced by a nondeterministic stub (symbolic file class and diagnostic levels): for every sequence of 0..N files of the four classes, both formats, explicit / directory / repeated arguments: one verdict per file, OK iff no Error-level diagnostic, exit 0 iff all OK, no internal exception.",
             ref="4.4", tech="symbolic execution of norminette.__main__.main with a nondeterministic analysis stub (symx + z3); replay through the real CLI"),
 "C05": dict(text="Tokenizer totality by one-step induction (every window of <=N symbolic ASCII characters plus longer family windows, every start position: get_next_token returns and raises nothing), pipeline totality on text-level symbolic edits (one inserted or REPLACING lexeme of solver-chosen spelling at every token boundary, own-line fragments, junk lines, cuts, deletions, swaps): Registry.run returns or raises CParsingError, never another exception, never hangs; and unbounded repetition: 41 constructs repeated under a call-depth monitor and natively 1500 / 3000 times.",
             ref="4.5", tech="symbolic execution of the lexer step and of the whole pipeline on symbolically edited program text (symx + z3); hang candidates replayed natively"),
 "C06": dict(text="Footprint invariant checked after every explored pipeline run (process-global state reachable from the analysis is unchanged, whatever the file: clean, erroneous, fatal or crashing) - one inductive step that covers histories of any length; plus a z3 query that the stable sort of the loaded rule priorities cannot depend on the import order, re-import under permuted directory listings, and direct A;B vs B runs.",
             ref="4.6", tech="state-footprint invariant on symbolically explored runs (symx + z3) + z3 sort-stability query over the loaded priorities"),
 "C07": dict(text="Monitor on every explored pipeline run (symbolic edits at every token boundary): each main-loop iteration consumes >= 1 token, segments tile the token stream, and an unrecognised token always ends the run with the fatal CParsingError (never a verdict); a junk line that cannot begin any statement never leaves the file OK!; conforming programs (incl. commented variants): one statement per line, line-aligned, scope back at file level after each function; violating variants: scope back at file level after each function.",
             ref="4.7", tech="symbolic execution of the pipeline with a test-side monitor on Context.pop_tokens (symx + z3)"),
 "C08": dict(text="Comparator laws (irreflexive, asymmetric, transitive, total up to the printed key) of the real Error.__lt__/Highlight.__lt__ and ascending printed order after the real Errors.__iter__ sort, for symbolic diagnostics with unbounded integer positions; every witness is pushed through both real formatters and the outputs compared.",
             ref="4.8", tech="symbolic execution of the comparators and of list.sort driven by them (symx + z3 LIA); formatters compared natively on solver witnesses"),
 "C09": dict(text="Token/end/diagnostic positions equal an independent position scanner for every window of <=N symbolic characters and every symbolic start (line, col); induction over tokens extends it to whole files.",
             ref="4.9", tech="symbolic execution of the lexer with symbolic start column/line (symx + z3 LIA queries) against an independent position oracle"),
 "C11": dict(text="Differential check of the real literal parsers against an independent C11 6.4.4/6.4.5 recogniser: every literal of <=N symbolic characters (numeric and quoted alphabets) in a valid family is one clean token; every member of the malformed families M1..M15 carries its diagnostic.",
             ref="4.11", tech="differential symbolic execution (symx + z3): reference C-constant recogniser vs the real lexer on the same symbolic literal"),
 "C15": dict(text="The real main() is executed symbolically over a symbolic file-system model (a tree of <= K entries with symbolic names and kinds; pathlib / glob / git check-ignore answered from the model by their documented contracts): for every argument list (none, one, two incl. repeats, with a nonexistent path, with --use-gitignore) the multiset of analysed files equals the property's selection, each under its base name; bad suffixes are rejected with a message, a missing path gives a non-zero status. The model is validated against the real OS on sampled witnesses.",
             ref="4.15", tech="symbolic execution of norminette.__main__.main with a contract-level symbolic file-system stub (symx + z3); witnesses and counterexamples replayed on real directory trees through the real CLI"),
 "C10": dict(text="Token text equals the (normalised) consumed source span, progress and BAD_LEXEME accounting, for every window of <=N symbolic characters.",
             ref="4.10", tech="symbolic execution of the lexer (symx + z3) against an independent normaliser with its own C tables"),
}
NA = {
}
PENDING = "check not built yet in this session (see DESIGN.md); will be claimed once its harness exists"
ALL = [f"C{i:02d}" for i in range(1, 20)]
def main():
    checks = []
    for pid, c in CHECKS.items():
        checks.append(dict(property_id=pid, quick_cmd=f"./check {pid} --tier quick", thorough_cmd=f"./check {pid} --tier thorough",
                           evidence_file=f"/verif/evidence/{pid}.json", replay_cmd_template=f"./check {pid} --replay {{path}}",
                           engine="symx", level_claimed=dict(category="model_checking", text=c["text"], design_ref="DESIGN.md section " + c["ref"]),
                           level_note=TRUST, technique=c.get("tech", SYMX)))
    na = [dict(property_id=p, reason=NA.get(p, PENDING)) for p in ALL if p not in CHECKS]
    m = dict(version=1, setup_cmd="sh setup.sh",
             hooks=dict(guard="NORMINETTE_VERIF", enable="none needed: instrumentation is applied at import time by symx/hook.py (outside /repo); the guard name is reserved and unused",
                        baseline_off_cmd=BASE, source_commits=[], add_only=True),
             engines=[dict(name="symx", path="/verif/symx", serves_properties=sorted(CHECKS), kind_free_text=SYMX)],
             checks=checks, not_applicable=na,
             notes="Exit codes: 0 held / 1 VIOLATION (replay-confirmed, not in known_findings.json) / 3 INCONCLUSIVE (engine gap, solver unknown, non-reproducing candidate). See DESIGN.md section 6.")
    json.dump(m, open(os.path.join(V, "MANIFEST.json"), "w"), indent=1)
    print("wrote MANIFEST.json with", len(checks), "checks;", len(na), "not applicable/pending")
if __name__ == "__main__":
    main()
