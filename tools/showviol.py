import json,hashlib,sys
p=sys.argv[1]
e=json.load(open(f'/verif/evidence/{p}.json'))
for v in e['coverage']['new_violations']:
    h=hashlib.sha1(v['fingerprint'].encode()).hexdigest()[:12]
    c=json.load(open(f'/verif/evidence/replays/{p}-{h}.json'))['case']
    print(v['fingerprint'], '|', json.dumps(c)[:200])
print(e['coverage']['counters'])
