#!/bin/sh
# Offline setup: overlay venv on /venv (repo deps) + z3-solver (+ crosshair-tool) from the local wheelhouse.
set -e
cd "$(dirname "$0")"
V=.venv
if [ ! -x "$V/bin/python" ] || ! "$V/bin/python" -c "import z3" 2>/dev/null; then
  rm -rf "$V"
  /venv/bin/python -m venv "$V"
  SP=$("$V/bin/python" -c "import sysconfig;print(sysconfig.get_paths()['purelib'])")
  printf "import site; site.addsitedir('/venv/lib/python3.12/site-packages')\n" > "$SP/_overlay.pth"
  PIP_NO_INDEX=1 "$V/bin/pip" install -q --no-index --find-links /opt/veriftools/wheels z3-solver >/dev/null
  PIP_NO_INDEX=1 "$V/bin/pip" install -q --no-index --find-links /opt/veriftools/wheels crosshair-tool >/dev/null 2>&1 || echo "setup: crosshair-tool not installed (cross-check disabled)"
fi
"$V/bin/python" -c "import z3; print('setup ok: z3', z3.get_version_string())"
